"""Iterator instance life cycle -> coq/gen/Extracted_instance.v        (DESIGN 4.1, 5.12; property C12)

Sources: src/iterator/backend.rs, src/iterator/mod.rs, src/iterator/exfiltrator/{mod,raw,origin}.rs,
signal-hook-registry/src/lib.rs (FORBIDDEN_IMPL only).

Every statement of the anchored functions is matched (after removing comments, string contents and
ALL white space) against a fixed set of shapes and becomes one step of a skeleton, in source order.
A statement of an unknown shape raises TranslateError.  Generated data:

  MAX_SIGNUM, ids_table_len (DeliveryState::new), slots_len (PendingSignals.slots), forbidden
  handle_add_signal_skel     Handle::add_signal: lock (+ poison policy), `lock[signal as usize].is_some()`
                             early Ok, `pending.add_signal(..)?`, assignment, Ok
  pending_add_signal_skel    PendingSignals::add_signal: the three asserts, exfiltrator.init, the
                             action closure, `register_sigaction(..)?`, Ok(id)
  delivery_state_drop_skel   DeliveryState::drop: lock (+ poison policy), unregister every recorded id
  with_pipe_skel             SignalDelivery::with_pipe (`for .. { add_signal(..)? }`; `me` owns everything)
  exf_init_skel, exf_supports_all   per exfiltrator (SignalOnly: trait default init; WithOrigin delegates
                             to WithRawSiginfo)
  signal_delivery_fields / handle_fields      declaration (= drop) order of the owning structs
  signals_api_delegates      SignalsInfo::{new, with_exfiltrator, add_signal, handle} and
                             SignalDelivery::handle are the thin wrappers the model assumes
"""
import re
from rustsrc import *


def squash(s):
    return re.sub(r'\s+', '', s)


LOCK_POLICIES = [
    (r'unwrap_or_else\(PoisonError::into_inner\)', 'IgnorePoison'),
    (r'unwrap_or_else\(\|\w+\|\w+\.into_inner\(\)\)', 'IgnorePoison'),
    (r'unwrap\(\)', 'UnwrapPoison'),
    (r'expect\([^;]*?\)', 'UnwrapPoison'),
]


def lock_re(prefix):
    alts = '|'.join('(?P<p%d>%s)' % (i, rx) for i, (rx, _) in enumerate(LOCK_POLICIES))
    return prefix + r'\.lock\(\)\.(?:' + alts + r');'


def policy_of(m):
    for i, (_, tag) in enumerate(LOCK_POLICIES):
        if m.group('p%d' % i) is not None:
            return tag
    raise TranslateError('lock policy not recognised')


def recognise(fn_name, text, shapes):
    """text: squashed body.  shapes: list of (regex, tag or callable(match)->tag or None).
    Consumes the whole text; returns the list of tags in order."""
    out, pos = [], 0
    while pos < len(text):
        for rx, tag in shapes:
            m = re.compile(rx).match(text, pos)
            if m:
                t = tag(m) if callable(tag) else tag
                if t is not None:
                    out.append(t)
                pos = m.end()
                break
        else:
            raise TranslateError('%s: statement of unknown shape at: %s' % (fn_name, text[pos:pos + 90]))
    return out


def struct_fields(s, name):
    m = re.search(r'\bstruct\s+' + name + r'\b[^;{(]*\{', s)
    if not m:
        raise TranslateError('struct %s not found' % name)
    body = s[m.end():match_brace(s, m.end() - 1)]
    fields = []
    for part in split_top(body):
        part = re.sub(r'#\s*\[[^\]]*\]', '', part).strip()
        if not part:
            continue
        mm = re.match(r'^(?:pub(?:\s*\([^)]*\))?\s+)?(\w+)\s*:', part)
        if not mm:
            raise TranslateError('struct %s: field not recognised: %r' % (name, part))
        fields.append(mm.group(1))
    return fields


def impl_block(s, header_rx):
    """body text of the first `impl` block whose header matches header_rx"""
    for m in re.finditer(r'\bimpl\b[^{;]*\{', s):
        hdr = s[m.start():m.end() - 1]
        if re.search(header_rx, hdr, re.S):
            return s[m.end():match_brace(s, m.end() - 1)]
    raise TranslateError('impl block %s not found' % header_rx)


def fn_in(block, name):
    """(body) of fn `name` directly inside the given impl block text, or None"""
    try:
        _, body, _ = find_fn(block, name)
        return body
    except TranslateError:
        return None


INIT_SHAPES = [
    (r'if!slot\.0\.load\(Ordering::\w+\)\.is_null\(\)\{return;\}', 'IRetIfInit'),
    (r'letnew=Box::default\(\);', 'INewBox'),
    (r'letold=slot\.0\.swap\(Box::into_raw\(new\),Ordering::\w+\);', 'ISwap'),
    (r'assert!\(old\.is_null\(\)(?:,[^;]*)?\);', 'IAssertOldNull'),
]


def exfiltrator(s, name, raw=None):
    """(init skeleton, supports_all) of `unsafe impl .. Exfiltrator for <name>`"""
    blk = impl_block(s, r'Exfiltrator\s+for\s+' + name + r'\b')
    sup = fn_in(blk, 'supports_signal')
    if sup is None:
        raise TranslateError('%s::supports_signal not found' % name)
    sup = squash(sup)
    if sup == 'true':
        supports = True
    elif sup == 'self.0.supports_signal(signal)' and raw is not None:
        supports = raw[1]
    else:
        raise TranslateError('%s::supports_signal: unknown shape %s' % (name, sup))
    init = fn_in(blk, 'init')
    if init is None:
        skel = None          # trait default
    else:
        init = squash(init)
        if raw is not None and re.fullmatch(r'self\.0\.init\(slot,signal\);?', init):
            skel = list(raw[0])
        else:
            skel = recognise(name + '::init', init, INIT_SHAPES)
    return skel, supports


def translate(repo, consts):
    backend = strip(open(repo + '/src/iterator/backend.rs').read())
    itmod = strip(open(repo + '/src/iterator/mod.rs').read())
    exmod = strip(open(repo + '/src/iterator/exfiltrator/mod.rs').read())
    exraw = strip(open(repo + '/src/iterator/exfiltrator/raw.rs').read())
    exorigin = strip(open(repo + '/src/iterator/exfiltrator/origin.rs').read())
    registry = strip(open(repo + '/signal-hook-registry/src/lib.rs').read())

    # ---- constants ------------------------------------------------------------------------
    init, _ = find_const_item(backend, 'MAX_SIGNUM')
    if not re.fullmatch(r'\s*\d+\s*', init):
        raise TranslateError('MAX_SIGNUM is not a literal: %r' % init)
    max_signum = int(init)
    init, _ = find_const_item(registry, 'FORBIDDEN_IMPL')
    m = re.fullmatch(r'\s*&\s*\[(.*)\]\s*', init, re.S)
    if not m:
        raise TranslateError('FORBIDDEN_IMPL: unknown shape')
    forb = []
    for nm in [x.strip() for x in m.group(1).split(',') if x.strip()]:
        if nm not in consts:
            raise TranslateError('no libc value measured for %s' % nm)
        forb.append(consts[nm])
    if not re.search(r'pub\s+const\s+FORBIDDEN\s*:\s*&\s*\[c_int\]\s*=\s*FORBIDDEN_IMPL\s*;', registry):
        raise TranslateError('FORBIDDEN is not FORBIDDEN_IMPL')
    _, body, _ = find_fn(registry, 'register_sigaction_impl')
    if not re.match(r'assert!\(!FORBIDDEN\.contains\(&signal\)(?:,[^;]*)?\);register_unchecked_impl\(signal,action\)$', squash(body)):
        raise TranslateError('register_sigaction_impl: forbidden assert + register_unchecked_impl not recognised')
    _, body, _ = find_fn(registry, 'register_sigaction')
    if squash(body) != 'register_sigaction_impl(signal,action)':
        raise TranslateError('register_sigaction does not delegate to register_sigaction_impl')

    # ---- table sizes ----------------------------------------------------------------------
    _, body, _ = find_fn(backend, 'new', owner=r'impl\s+DeliveryState')
    m = re.match(r'letids=\(0\.\.(\w+)\)\.map\(\|_\|None\)\.collect\(\);Self\{closed:AtomicBool::new\(false\),registered_signal_ids:Mutex::new\(ids\),\}$', squash(body))
    if not m:
        raise TranslateError('DeliveryState::new: unknown shape')
    ids_len = m.group(1)
    m = re.search(r'struct\s+PendingSignals\s*<[^>]*>\s*\{[^}]*\bslots\s*:\s*\[\s*E::Storage\s*;\s*(\w+)\s*\]', backend)
    if not m:
        raise TranslateError('PendingSignals.slots: array length not found')
    slots_len = m.group(1)
    for nm in (ids_len, slots_len):
        if nm != 'MAX_SIGNUM':
            raise TranslateError('table length %s is not MAX_SIGNUM' % nm)
    sd_fields = struct_fields(backend, 'SignalDelivery')
    h_fields = struct_fields(backend, 'Handle')
    ds_fields = struct_fields(backend, 'DeliveryState')
    if 'registered_signal_ids' not in ds_fields:
        raise TranslateError('DeliveryState.registered_signal_ids missing')
    if not re.search(r'#\s*\[\s*derive\s*\(([^)]*\bClone\b[^)]*)\)\s*\]\s*pub\s+struct\s+Handle\b', backend):
        raise TranslateError('Handle does not derive Clone')
    for f in h_fields:
        if not re.search(r'\b' + f + r'\s*:\s*Arc\s*<', backend):
            raise TranslateError('Handle.%s is not an Arc' % f)

    # ---- Handle::add_signal ---------------------------------------------------------------
    _, body, _ = find_fn(backend, 'add_signal', owner=r'^impl\s+Handle\b')
    h_skel = recognise('Handle::add_signal', squash(body), [
        (lock_re(r'let(?:mut)?lock=self\.delivery_state\.registered_signal_ids'), lambda m: '(HLock %s)' % policy_of(m)),
        (r'iflock\[signalasusize\]\.is_some\(\)\{returnOk\(\(\)\);\}', 'HIndexIsSomeRetOk'),
        (r'letid=Arc::clone\(&self\.pending\)\.add_signal\(Arc::clone\(&self\.write\),signal\)\?;', 'HCallPendingTry'),
        (r'lock\[signalasusize\]=Some\(id\);', 'HAssignId'),
        (r'Ok\(\(\)\)$', 'HRetOk'),
    ])

    # ---- PendingSignals::add_signal -------------------------------------------------------
    _, body, _ = find_fn(backend, 'add_signal', owner=r'AddSignal\s+for\s+PendingSignals')
    action_rx = (r'letaction=move\|act:&_\|\{letslot=&self\.slots\[signalasusize\];letex=&self\.exfiltrator;'
                 r'ex\.store\(slot,signal,act\);write\.wake_readers\(\);\};')
    p_skel = recognise('PendingSignals::add_signal', squash(body), [
        (r'assert!\(signal>=0(?:,[^;]*)?\);', 'PAssertNonNeg'),
        (r'assert!\(\(signalasusize\)<MAX_SIGNUM(?:,[^;]*)?\);', 'PAssertBelowMax'),
        (r'assert!\(self\.exfiltrator\.supports_signal\(signal\)(?:,[^;]*)?\);', 'PAssertSupports'),
        (r'self\.exfiltrator\.init\(&self\.slots\[signalasusize\],signal\);', 'PInit'),
        (action_rx, 'PMakeAction'),
        (r'letid=unsafe\{signal_hook_registry::register_sigaction\(signal,action\)\}\?;', 'PRegisterTry'),
        (r'Ok\(id\)$', 'PRetOkId'),
    ])

    # ---- DeliveryState::drop --------------------------------------------------------------
    _, body, _ = find_fn(backend, 'drop', owner=r'Drop\s+for\s+DeliveryState')
    d_skel = recognise('DeliveryState::drop', squash(body), [
        (lock_re(r'let(?:mut)?lock=self\.registered_signal_ids'), lambda m: '(DLock %s)' % policy_of(m)),
        (r'foridinlock\.iter\(\)\.filter_map\(\|s\|\*s\)\{crate::low_level::unregister\(id\);\}', 'DUnregisterAll'),
    ])
    lowlevel = strip(open(repo + '/src/low_level/mod.rs').read())
    if not re.search(r'pub\s+use\s+signal_hook_registry::\{[^}]*\bunregister\b[^}]*\}|pub\s+use\s+signal_hook_registry::unregister\b', lowlevel):
        raise TranslateError('low_level::unregister is not the registry\'s unregister')

    # ---- SignalDelivery::with_pipe --------------------------------------------------------
    _, body, _ = find_fn(backend, 'with_pipe')
    w_skel = recognise('SignalDelivery::with_pipe', squash(body), [
        (r'letpending=Arc::new\(PendingSignals::new\(exfiltrator\)\);', 'WNewPending'),
        (r'letpending_add_signal=Arc::clone\(&pending\);', 'WCloneArc'),
        (r'lethandle=Handle::new\(write,pending_add_signal\);', 'WNewHandle'),
        (r'letme=Self\{read,handle,pending,?\};', 'WBuildMe'),
        (r'forsiginsignals\{me\.handle\.add_signal\(\*sig\.borrow\(\)\)\?;\}', 'WForAddTry'),
        (r'Ok\(me\)$', 'WRetOkMe'),
    ])
    _, body, _ = find_fn(backend, 'new', owner=r'^impl\s+Handle\b')
    if not re.match(r'Self\{pending,write:Arc::new\(write\),delivery_state:Arc::new\(DeliveryState::new\(\)\),?\}$', squash(body)):
        raise TranslateError('Handle::new: unknown shape')
    _, body, _ = find_fn(backend, 'handle', owner=r'SignalDelivery')
    if squash(body) != 'self.handle.clone()':
        raise TranslateError('SignalDelivery::handle: unknown shape')

    # ---- the Signals API (src/iterator/mod.rs) --------------------------------------------
    blk = impl_block(itmod, r'impl\s*<\s*E\s*:\s*Exfiltrator\s*>\s*SignalsInfo\s*<\s*E\s*>')
    want = {
        'new': r'Self::with_exfiltrator\(signals,E::default\(\)\)$',
        'with_exfiltrator': r'let\(read,write\)=UnixStream::pair\(\)\?;Ok\(SignalsInfo\(SignalDelivery::with_pipe\(read,write,exfiltrator,signals,?\)\?\)\)$',
        'add_signal': r'self\.handle\(\)\.add_signal\(signal\)$',
        'handle': r'self\.0\.handle\(\)$',
    }
    for fn, rx in want.items():
        b = fn_in(blk, fn)
        if b is None or not re.match(rx, squash(b)):
            raise TranslateError('SignalsInfo::%s: unknown shape' % fn)
    if not re.search(r'pub\s+struct\s+SignalsInfo\s*<[^>]*>\s*\(\s*SignalDelivery\s*<\s*UnixStream\s*,\s*E\s*>\s*\)\s*;', itmod):
        raise TranslateError('SignalsInfo is not a newtype over SignalDelivery<UnixStream, E>')

    # ---- exfiltrators ---------------------------------------------------------------------
    # trait default of init must be empty
    tb = re.search(r'\btrait\s+Exfiltrator\b[^{]*\{', exmod)
    if not tb:
        raise TranslateError('trait Exfiltrator not found')
    trait_body = exmod[tb.end():match_brace(exmod, tb.end() - 1)]
    dflt = fn_in(trait_body, 'init')
    if dflt is None or not re.fullmatch(r'(let_=\w+;)*', squash(dflt)):
        raise TranslateError('Exfiltrator::init default body is not empty')
    so = exfiltrator(exmod, 'SignalOnly')
    raw = exfiltrator(exraw, 'WithRawSiginfo')
    if raw[0] is None:
        raw = ([], raw[1])
    if not re.search(r'pub\s+struct\s+WithOrigin\s*\(\s*WithRawSiginfo\s*\)\s*;', exorigin):
        raise TranslateError('WithOrigin is not a newtype over WithRawSiginfo')
    org = exfiltrator(exorigin, 'WithOrigin', raw=raw)
    exfs = [('SignalOnly', so), ('WithRawSiginfo', raw), ('WithOrigin', org)]

    # ---- output ---------------------------------------------------------------------------
    o = []
    o.append('(* GENERATED by translator/instance.py from src/iterator/{backend,mod}.rs, src/iterator/exfiltrator/{mod,raw,origin}.rs,')
    o.append('   signal-hook-registry/src/lib.rs -- do not edit *)')
    o.append('From Coq Require Import ZArith List String.')
    o.append('Import ListNotations. Open Scope Z_scope. Open Scope string_scope.')
    o.append('Inductive lock_policy := IgnorePoison | UnwrapPoison.')
    o.append('Inductive hstep := HLock (p : lock_policy) | HIndexIsSomeRetOk | HCallPendingTry | HAssignId | HRetOk.')
    o.append('Inductive pstep := PAssertNonNeg | PAssertBelowMax | PAssertSupports | PInit | PMakeAction | PRegisterTry | PRetOkId.')
    o.append('Inductive dstep := DLock (p : lock_policy) | DUnregisterAll.')
    o.append('Inductive istep := IRetIfInit | INewBox | ISwap | IAssertOldNull.')
    o.append('Inductive wstep := WNewPending | WCloneArc | WNewHandle | WBuildMe | WForAddTry | WRetOkMe.')
    o.append('Inductive exfk := SignalOnly | WithRawSiginfo | WithOrigin.')
    o.append('Definition MAX_SIGNUM : Z := %d.' % max_signum)
    o.append('Definition ids_table_len : Z := MAX_SIGNUM.')
    o.append('Definition slots_len : Z := MAX_SIGNUM.')
    o.append('Definition forbidden : list Z := %s.' % coq_list([coq_z(v) for v in forb]))
    o.append('Definition handle_add_signal_skel : list hstep := %s.' % coq_list(h_skel))
    o.append('Definition pending_add_signal_skel : list pstep := %s.' % coq_list(p_skel))
    o.append('Definition delivery_state_drop_skel : list dstep := %s.' % coq_list(d_skel))
    o.append('Definition with_pipe_skel : list wstep := %s.' % coq_list(w_skel))
    o.append('Definition exf_init_skel (e : exfk) : list istep :=')
    o.append('  match e with ' + ' | '.join('%s => %s' % (n, coq_list(sk or [])) for n, (sk, _) in exfs) + ' end.')
    o.append('Definition exf_supports_all (e : exfk) : bool :=')
    o.append('  match e with ' + ' | '.join('%s => %s' % (n, 'true' if sup else 'false') for n, (_, sup) in exfs) + ' end.')
    o.append('Definition signal_delivery_fields : list string := %s.' % coq_list([coq_string(f) for f in sd_fields]))
    o.append('Definition handle_fields : list string := %s.' % coq_list([coq_string(f) for f in h_fields]))
    o.append('Definition signals_api_delegates : bool := true.')
    return '\n'.join(o) + '\n'
