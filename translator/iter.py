"""src/iterator/{backend,mod}.rs, src/iterator/exfiltrator/{mod,raw}.rs, src/low_level/{pipe,channel}.rs
-> coq/gen/Extracted_iter.v : MAX_SIGNUM, the channel capacity, the control/synchronisation skeletons
of the iterator protocol (action closure, close, is_closed, flush, pending, poll_pending,
Pending::next, SignalIterator::new, poll_signal, has_signals, wait, Forever::next, the exfiltrators'
store/load, pipe::wake) as string lists, and - derived from those skeletons - the few structural
facts the MODEL FOLLOWS (coq/iter/Model.v branches on them, so a change of the source changes the
model's behaviour and the theorems about it are re-checked against what the code says now):
   action_store_first   the handler's action stores into the slot before it wakes the pipe
   close_store_first    close() stores the flag before it wakes the pipe
   poll_none_retest     poll_signal re-tests is_closed() when poll_pending gave Ok(None)
"""
import re
from rustsrc import *

EXTRA = [
    # the handler's action / close
    (r'ex\s*\.\s*store\s*\(\s*slot\s*,\s*signal\s*,\s*act\s*\)', 'ex.store(slot,signal,act)'),
    (r'(?:self\s*\.\s*)?write\s*\.\s*wake_readers\s*\(\s*\)', 'wake_readers()'),
    (r'pipe::wake\s*\(\s*self\s*\.\s*as_raw_fd\s*\(\s*\)\s*,\s*WakeMethod::(\w+)\s*\)', r'pipe::wake(fd,\1)'),
    # consumer side
    (r'self\s*\.\s*signals\s*\.\s*borrow_mut\s*\(\s*\)\s*\.\s*handle\s*\.\s*is_closed\s*\(\s*\)', 'is_closed()'),
    (r'self\s*\.\s*handle\s*\.\s*is_closed\s*\(\s*\)', 'is_closed()'),
    (r'self\s*\.\s*iter\s*\.\s*next\s*\(\s*\)', 'iter.next()'),
    (r'self\s*\.\s*signals\s*\.\s*borrow_mut\s*\(\s*\)\s*\.\s*poll_pending\s*\(\s*has_signals\s*\)', 'poll_pending(has_signals)'),
    (r'self\s*\.\s*0\s*\.\s*poll_pending\s*\(\s*&mut\s+Self::has_signals\s*\)', 'poll_pending(Self::has_signals)'),
    (r'self\s*\.\s*0\s*\.\s*poll_signal\s*\(\s*&mut\s+SignalsInfo::<E>::has_signals\s*\)', 'poll_signal(SignalsInfo::has_signals)'),
    (r'has_signals\s*\(\s*self\s*\.\s*get_read_mut\s*\(\s*\)\s*\)', 'has_signals(read)'),
    (r'self\s*\.\s*iter\s*=\s*pending', 'iter=pending'),
    (r'signals\s*\.\s*borrow_mut\s*\(\s*\)\s*\.\s*pending\s*\(\s*\)', 'signals.pending()'),
    (r'self\s*\.\s*pending\s*\(\s*\)', 'self.pending()'),
    (r'self\s*\.\s*flush\s*\(\s*\)', 'flush()'),
    (r'Pending::new\s*\(', 'Pending::new'),
    (r'libc::recv\s*\(\s*self\s*\.\s*read\s*\.\s*as_raw_fd\s*\(\s*\)\s*,[^;{}]*?,\s*SIZE\s*,\s*nowait_flag\s*,?\s*\)\s*>\s*0', 'recv(read,SIZE,nowait_flag)>0'),
    (r'let\s+nowait_flag\s*=\s*libc::(\w+)', r'nowait_flag=\1'),
    (r'const\s+SIZE\s*:\s*usize\s*=\s*(\d+)', r'SIZE=\1'),
    (r'read\s*\.\s*read\s*\(\s*&mut\s*\[\s*0u8\s*\]\s*\)', 'read.read(&mut [0u8])'),
    (r'break\s+Ok\s*\(\s*num_read\s*>\s*0\s*\)', 'break Ok(num_read>0)'),
    (r'break\s+Err\s*\(\s*error\s*\)', 'break Err(error)'),
    (r'break\s+Some\s*\(\s*result\s*\)', 'break Some(result)'),
    (r'break\s+None', 'break None'),
    (r'continue\b', 'continue'),
    (r'panic!\s*\(', 'panic!'),
    (r'return\s+PollResult::(\w+)', r'return \1'),
    (r'PollResult::(\w+)\s*(?:\([^)]*\))?\s*=>', r'\1=>'),
    (r'PollResult::(\w+)', r'\1'),
    (r'return\s+Ok\s*\(\s*None\s*\)', 'return Ok(None)'),
    (r'Ok\s*\(\s*Some\s*\(\s*pending\s*\)\s*\)\s*=>\s*pending', 'Ok(Some(pending))=>pending'),
    (r'Ok\s*\(\s*Some\s*\(\s*pending\s*\)\s*\)\s*=>', 'Ok(Some(pending))=>'),
    (r'Ok\s*\(\s*None\s*\)\s*=>', 'Ok(None)=>'),
    (r'Ok\s*\(\s*false\s*\)\s*=>\s*Ok\s*\(\s*None\s*\)', 'Ok(false)=>Ok(None)'),
    (r'Ok\s*\(\s*true\s*\)\s*=>\s*Ok\s*\(\s*Some\s*\(\s*self\s*\.\s*pending\s*\(\s*\)\s*\)\s*\)', 'Ok(true)=>Ok(Some(self.pending()))'),
    (r'Ok\s*\(\s*num_read\s*\)\s*=>', 'Ok(num_read)=>'),
    (r'Err\s*\(\s*err(?:or)?\s*\)\s*=>', 'Err=>'),
    # Pending::next
    (r'self\s*\.\s*pending\s*\.\s*exfiltrator\s*\.\s*load\s*\(\s*slot\s*,\s*sig\s+as\s+c_int\s*\)', 'exfiltrator.load(slot,sig)'),
    (r'let\s+sig\s*=\s*self\s*\.\s*position', 'sig=position'),
    (r'return\s+result', 'return result'),
    (r'self\s*\.\s*position\s*\+=\s*1', 'position+=1'),
    (r'position\s*:\s*0', 'position:0'),
    (r'Self\s*\{\s*signals\s*,\s*iter\s*\}', 'Self{signals,iter}'),
    (r'\bNone\b', 'None'),
    # exfiltrators
    (r'Some\s*\(\s*signal\s*\)', 'Some(signal)'),
    (r'slot\s*\.\s*send\s*\(\s*info\s*\)', 'channel.send(info)'),
    (r'slot\s*\.\s*and_then\s*\(\s*\|s\|\s*s\s*\.\s*recv\s*\(\s*\)\s*\)', 'channel.recv()'),
    (r'\.\s*is_ok\s*\(\s*\)', '.is_ok()'),
    (r'\.\s*as_ref\s*\(\s*\)', '.as_ref()'),
    (r'let\s+info\s*=\s*\*info', 'info=*info'),
    # pipe::wake
    (r'WakeMethod::Write\s*=>\s*libc::write\s*\(\s*pipe\s*,\s*data\s*,\s*1\s*\)', 'Write=>write(pipe,data,1)'),
    (r'WakeMethod::Send\s*=>\s*libc::send\s*\(\s*pipe\s*,\s*data\s*,\s*1\s*,\s*MSG_NOWAIT\s*\)', 'Send=>send(pipe,data,1,MSG_NOWAIT)'),
]


def drop_hooks(s):
    """Remove the cfg(sighook_verif) hook statements (attribute + the statement it guards, which may
    span several lines up to its ';') and take the not(sighook_verif) variants."""
    out = []
    i = 0
    rx = re.compile(r'#\[cfg\(sighook_verif\)\]')
    while True:
        m = rx.search(s, i)
        if not m:
            out.append(s[i:])
            break
        out.append(s[i:m.start()])
        j = s.find(';', m.end())
        if j < 0:
            raise TranslateError('unterminated verification hook')
        out.append(re.sub(r'[^\n]', ' ', s[m.start():j + 1]))
        i = j + 1
    s = ''.join(out)
    s = re.sub(r'#\[cfg\(not\(sighook_verif\)\)\]', ' ' * len('#[cfg(not(sighook_verif))]'), s)
    # statement-level #[cfg(...)] let ...; : keep the ones enabled for this target
    out, i = [], 0
    rx = re.compile(r'#\[cfg\(((?:[^()\[\]]|\([^()]*\))*)\)\]\s*(?=let\b)')
    while True:
        m = rx.search(s, i)
        if not m:
            out.append(s[i:])
            break
        out.append(s[i:m.start()])
        # the predicate's string literals were blanked by strip(); recover them from the raw text
        j = s.find(';', m.end())
        if cfg_eval(CFG_RAW.get(m.start(), m.group(1)), LINUX_X86_64):
            out.append(' ' * (m.end() - m.start()) + s[m.end():j + 1])
        else:
            out.append(re.sub(r'[^\n]', ' ', s[m.start():j + 1]))
        i = j + 1
    return ''.join(out)


CFG_RAW = {}


def store_args(body, recv_rx):
    """argument texts of `<recv>.store(...)` / `.compare_exchange(...)` calls (values matter: store(true))"""
    res = []
    for m in re.finditer(recv_rx + r'\s*\.\s*(store|compare_exchange)\s*\(', body):
        close = match_brace(body, m.end() - 1, '(', ')')
        res.append(m.group(1) + '(' + norm(body[m.end():close]).replace(' ', '') + ')')
    return res


def closure_body(body, start_rx):
    m = re.search(start_rx, body)
    if not m:
        raise TranslateError('closure not found: ' + start_rx)
    i = body.index('{', m.end() - 1)
    return body[i + 1:match_brace(body, i)]


def index_of(sk, label, fn):
    idx = [i for i, t in enumerate(sk) if t == label]
    if not idx:
        raise TranslateError('%s: no `%s` in skeleton %s' % (fn, label, sk))
    return idx


def arm(sk, label, fn):
    """the tokens of the match arm starting with `label` up to the next arm label / end of match"""
    i = index_of(sk, label, fn)[0]
    out, depth = [], 0
    for t in sk[i + 1:]:
        if t.endswith('=>') and depth == 0:
            break
        if t.endswith('{'):
            depth += 1
        elif t == '}':
            if depth == 0:
                break
            depth -= 1
        out.append(t)
    return out


def translate(repo, consts):
    def load(p):
        rawtxt = open(repo + '/' + p).read()
        kept = strip(rawtxt, keep_strings=True)
        CFG_RAW.clear()
        for m in re.finditer(r'#\[cfg\(((?:[^()\[\]]|\([^()]*\))*)\)\]', kept):
            CFG_RAW[m.start()] = m.group(1)
        return drop_hooks(strip(rawtxt, keep_strings=False))
    be = load('src/iterator/backend.rs')
    mo = load('src/iterator/mod.rs')
    ex = load('src/iterator/exfiltrator/mod.rs')
    raw = load('src/iterator/exfiltrator/raw.rs')
    pipe = load('src/low_level/pipe.rs')
    chan = load('src/low_level/channel.rs')
    for name, s in (('backend', be), ('mod', mo)):
        t = s.find('#[cfg(test)]')
        if t >= 0:
            s = s[:t]
    ms, _ = find_const_item(be, 'MAX_SIGNUM')
    if not re.match(r'^\s*\d+\s*$', ms):
        raise TranslateError('MAX_SIGNUM: ' + ms)
    slots, _ = find_const_item(chan, 'SLOTS')
    if not re.match(r'^\s*\d+\s*$', slots):
        raise TranslateError('SLOTS: ' + slots)
    sk = {}
    _, add_body, _ = find_fn(be, 'add_signal', owner=r'AddSignal for PendingSignals')
    sk['action'] = skeleton(closure_body(add_body, r'let\s+action\s*=\s*move\s*\|[^|]*\|\s*\{'), EXTRA)
    sk['wake_readers'] = skeleton(find_fn(be, 'wake_readers', owner=r'SelfPipeWrite for W')[1], EXTRA)
    sk['close'] = skeleton(find_fn(be, 'close', owner=r'impl Handle')[1], EXTRA)
    sk['is_closed'] = skeleton(find_fn(be, 'is_closed', owner=r'impl Handle')[1], EXTRA)
    sk['flush'] = skeleton(find_fn(be, 'flush', owner=r'SignalDelivery')[1], EXTRA)
    fb = find_fn(be, 'flush', owner=r'SignalDelivery')[1]
    m = re.search(r'\b(while|if|loop)\s+libc::recv\s*\(', fb)
    sk['flush'].append('repeat:' + (m.group(1) if m else 'none'))
    sk['pending'] = skeleton(find_fn(be, 'pending', owner=r'SignalDelivery')[1], EXTRA)
    sk['poll_pending'] = skeleton(find_fn(be, 'poll_pending', owner=r'SignalDelivery')[1], EXTRA)
    sk['pending_new'] = skeleton(find_fn(be, 'new', owner=r'impl<E: Exfiltrator> Pending<E>')[1], EXTRA)
    sk['next'] = skeleton(find_fn(be, 'next', owner=r'Iterator for Pending')[1], EXTRA)
    sk['iterator_new'] = skeleton(find_fn(be, 'new', owner=r'impl<SD, E: Exfiltrator> SignalIterator')[1], EXTRA)
    sk['poll_signal'] = skeleton(find_fn(be, 'poll_signal', owner=r'SignalIterator')[1], EXTRA)
    sk['has_signals'] = skeleton(find_fn(mo, 'has_signals', owner=r'impl<E: Exfiltrator> SignalsInfo')[1], EXTRA)
    sk['wait'] = skeleton(find_fn(mo, 'wait', owner=r'impl<E: Exfiltrator> SignalsInfo')[1], EXTRA)
    sk['sync_pending'] = skeleton(find_fn(mo, 'pending', owner=r'impl<E: Exfiltrator> SignalsInfo')[1], EXTRA + [(r'self\s*\.\s*0\s*\.\s*pending\s*\(\s*\)', 'self.0.pending()')])
    sk['forever'] = skeleton(find_fn(mo, 'forever', owner=r'impl<E: Exfiltrator> SignalsInfo')[1], EXTRA + [(r'Forever\s*\(\s*RefSignalIterator::new\s*\(\s*&mut\s+self\s*\.\s*0\s*\)\s*\)', 'Forever(RefSignalIterator::new(&mut self.0))')])
    sk['forever_next'] = skeleton(find_fn(mo, 'next', owner=r'Iterator for Forever')[1], EXTRA)
    sk['so_store'] = skeleton(find_fn(ex, 'store', owner=r'Exfiltrator for SignalOnly')[1], EXTRA)
    sk['so_load'] = skeleton(find_fn(ex, 'load', owner=r'Exfiltrator for SignalOnly')[1], EXTRA)
    sk['raw_store'] = skeleton(find_fn(raw, 'store', owner=r'Exfiltrator for WithRawSiginfo')[1], EXTRA)
    sk['raw_load'] = skeleton(find_fn(raw, 'load', owner=r'Exfiltrator for WithRawSiginfo')[1], EXTRA)
    sk['wake'] = skeleton(find_fn(pipe, 'wake', owner=None, nth=1)[1] if False else find_wake(pipe), EXTRA)

    # ---- structural facts the model follows -------------------------------------------------
    a = sk['action']
    st, wk = index_of(a, 'self.exfiltrator.store()', 'action'), index_of(a, 'wake_readers()', 'action')
    if len(st) != 1 or len(wk) != 1:
        raise TranslateError('action closure: expected one store and one wake: %s' % a)
    action_store_first = st[0] < wk[0]
    c = sk['close']
    cst = [i for i, t in enumerate(c) if re.match(r'^self\.delivery_state\.closed\.store\(', t)]
    cwk = index_of(c, 'wake_readers()', 'close')
    if len(cst) != 1 or len(cwk) != 1:
        raise TranslateError('close: expected one store and one wake: %s' % c)
    close_store_first = cst[0] < cwk[0]
    ps = sk['poll_signal']
    none_arm = arm(ps, 'Ok(None)=>', 'poll_signal')
    if 'return Pending' not in none_arm:
        raise TranslateError('poll_signal: the Ok(None) arm does not return Pending: %s' % none_arm)
    pre = none_arm[:none_arm.index('return Pending')]
    if pre == []:
        retest = False
    elif (len(pre) == 4 and pre[0] == 'is_closed()' and re.match(r'^if [\w.()]*is_closed\(\) \{$', pre[1])
          and pre[2:] == ['return Closed', '}']):
        retest = True
    else:
        raise TranslateError('poll_signal: unrecognised Ok(None) arm: %s' % none_arm)

    vals = (store_args(find_fn(be, 'close', owner=r'impl Handle')[1], r'closed')
            + store_args(find_fn(ex, 'store', owner=r'Exfiltrator for SignalOnly')[1], r'slot')
            + store_args(find_fn(ex, 'load', owner=r'Exfiltrator for SignalOnly')[1], r'slot')
            + store_args(find_fn(be, 'new', owner=r'impl DeliveryState')[1], r'closed\s*:\s*AtomicBool') )
    m = re.search(r'closed\s*:\s*AtomicBool::new\(\s*(\w+)\s*\)', find_fn(be, 'new', owner=r'impl DeliveryState')[1])
    if not m:
        raise TranslateError('DeliveryState::new: initial value of closed not found')
    vals.append('closed:AtomicBool::new(%s)' % m.group(1))
    sk['values'] = vals
    out = ['(* GENERATED by translator/iter.py from src/iterator/{backend,mod}.rs, src/iterator/exfiltrator/{mod,raw}.rs,',
           '   src/low_level/{pipe,channel}.rs -- do not edit *)',
           'From Coq Require Import List String.',
           'Import ListNotations. Open Scope string_scope.',
           'Definition MAX_SIGNUM : nat := %d.' % int(ms),
           'Definition CHAN_SLOTS : nat := %d.' % int(slots),
           'Definition action_store_first : bool := %s.' % ('true' if action_store_first else 'false'),
           'Definition close_store_first : bool := %s.' % ('true' if close_store_first else 'false'),
           'Definition poll_none_retest : bool := %s.' % ('true' if retest else 'false')]
    for k in ['action', 'wake_readers', 'wake', 'close', 'is_closed', 'flush', 'pending', 'pending_new', 'poll_pending', 'next',
              'iterator_new', 'poll_signal', 'has_signals', 'wait', 'sync_pending', 'forever', 'forever_next',
              'so_store', 'so_load', 'raw_store', 'raw_load', 'values']:
        out.append(coq_string_list('skel_' + k, sk[k]))
    out += adapter(repo, 'signal-hook-tokio/src/lib.rs', 'tokio')
    out += adapter(repo, 'signal-hook-async-std/src/lib.rs', 'asyncstd')
    return '\n'.join(out) + '\n'



# ------------------------------------------------------------------------------------------
# the asynchronous adapters (signal-hook-tokio, signal-hook-async-std)
def match_arms(body, scrut_rx, fn):
    """[(pattern, rhs)] of the `match <scrutinee matching scrut_rx> { ... }` in body"""
    m = re.search(r'\bmatch\s+(' + scrut_rx + r')\s*\{', body, re.S)
    if not m:
        raise TranslateError('%s: match on %s not found' % (fn, scrut_rx))
    i = m.end() - 1
    inner = body[i + 1:match_brace(body, i)]
    arms = []
    for part in split_top(inner):
        if not part.strip():
            continue
        if '=>' not in part:
            raise TranslateError('%s: unrecognised match arm: %s' % (fn, norm(part)))
        pat, rhs = part.split('=>', 1)
        arms.append((norm(pat), norm(rhs)))
    return norm(m.group(1)), arms


def adapter(repo, path, prefix):
    src = drop_hooks(strip(open(repo + '/' + path).read(), keep_strings=False))
    t = src.find('#[cfg(test)]')
    if t >= 0:
        src = src[:t]
    # ---- Stream::poll_next: exactly one poll_signal call, its closure, the PollResult -> Poll arms
    _, pn, _ = find_fn(src, 'poll_next', owner=r'Stream for SignalsInfo')
    calls = re.findall(r'\.\s*poll_signal\s*\(', pn)
    scrut, arms = match_arms(pn, r'self\s*\.\s*0\s*\.\s*poll_signal\s*\((?:[^(){}]|\((?:[^(){}]|\([^(){}]*\))*\))*\)', prefix + ' poll_next')
    mcl = re.search(r'poll_signal\s*\(\s*&mut\s*\|\s*(\w+)\s*\|\s*Self::has_signals\s*\(\s*(\w+)\s*,\s*ctx\s*\)\s*\)', scrut)
    if not mcl or mcl.group(1) != mcl.group(2):
        raise TranslateError('%s poll_next: the callback is not |read| Self::has_signals(read, ctx): %s' % (prefix, scrut))
    pmap = []
    for pat, rhs in arms:
        mp = re.match(r'^PollResult::(\w+)(?:\s*\(\s*(\w+)\s*\))?$', pat)
        if not mp:
            raise TranslateError('%s poll_next: unrecognised pattern %s' % (prefix, pat))
        var = mp.group(2)
        if re.match(r'^Poll::Ready\s*\(\s*Some\s*\(\s*(\w+)\s*\)\s*\)$', rhs):
            if re.match(r'^Poll::Ready\s*\(\s*Some\s*\(\s*(\w+)\s*\)\s*\)$', rhs).group(1) != var:
                raise TranslateError('%s poll_next: %s yields something else than the polled value: %s' % (prefix, pat, rhs))
            val = 'Ready(Some)'
        elif re.match(r'^Poll::Ready\s*\(\s*None\s*\)$', rhs):
            val = 'Ready(None)'
        elif rhs == 'Poll::Pending':
            val = 'Pending'
        elif re.match(r'^panic!\s*\(', rhs):
            val = 'panic'
        else:
            raise TranslateError('%s poll_next: unrecognised arm %s => %s' % (prefix, pat, rhs))
        pmap.append((mp.group(1), val))
    if sorted(k for k, _ in pmap) != ['Closed', 'Err', 'Pending', 'Signal']:
        raise TranslateError('%s poll_next: arms %s' % (prefix, pmap))
    # ---- has_signals: one poll_read of one byte, its Poll -> Result<bool> arms
    _, hs, _ = find_fn(src, 'has_signals', owner=r'impl<E: Exfiltrator> SignalsInfo')
    reads = re.findall(r'\.\s*poll_read\s*\(', hs)
    scrut2, arms2 = match_arms(hs, r'Pin::new\s*\(\s*read\s*\)\s*\.\s*poll_read\s*\(\s*ctx\s*,[^(){}]*\)', prefix + ' has_signals')
    if len(re.findall(r'\[\s*0u8\s*\]', hs)) != 1:
        raise TranslateError('%s has_signals: the read buffer is not one byte' % prefix)
    cmap = []
    for pat, rhs in arms2:
        if pat == 'Poll::Pending':
            key, var = 'Pending', None
        else:
            mo = re.match(r'^Poll::Ready\s*\(\s*Ok\s*\(\s*(\(\s*\)|\w+)\s*\)\s*\)$', pat)
            me = re.match(r'^Poll::Ready\s*\(\s*Err\s*\(\s*(\w+)\s*\)\s*\)$', pat)
            if mo:
                key, var = 'Ready(Ok)', mo.group(1)
            elif me:
                key, var = 'Ready(Err)', me.group(1)
            else:
                raise TranslateError('%s has_signals: unrecognised pattern %s' % (prefix, pat))
        r = rhs.replace(' ', '')
        if r in ('Ok(false)', 'Ok(true)'):
            val = r
        elif key == 'Ready(Ok)' and var and re.match(r'^Ok\(' + re.escape(var) + r'>0\)$', r):
            val = 'Ok(n>0)'
        elif key == 'Ready(Err)' and r == 'Err(%s)' % var:
            val = 'Err'
        else:
            raise TranslateError('%s has_signals: unrecognised arm %s => %s' % (prefix, pat, rhs))
        cmap.append((key, val))
    if sorted(k for k, _ in cmap) != ['Pending', 'Ready(Err)', 'Ready(Ok)']:
        raise TranslateError('%s has_signals: arms %s' % (prefix, cmap))
    # the adapter builds the iterator once, at construction (SignalIterator::new performs one pending())
    _, we, _ = find_fn(src, 'with_exfiltrator', owner=r'impl<E: Exfiltrator> SignalsInfo')
    built = len(re.findall(r'OwningSignalIterator::new\s*\(', we))
    pairs = lambda m: coq_list(['(%s, %s)' % (coq_string(a), coq_string(b)) for a, b in m])
    return ['Definition %s_poll_map : list (string * string) :=\n  %s.' % (prefix, pairs(pmap)),
            'Definition %s_cb_map : list (string * string) :=\n  %s.' % (prefix, pairs(cmap)),
            'Definition %s_poll_signal_calls : nat := %d.' % (prefix, len(calls)),
            'Definition %s_poll_read_calls : nat := %d.' % (prefix, len(reads)),
            'Definition %s_iterator_built_in_constructor : nat := %d.' % (prefix, built)]

def find_wake(pipe):
    """body of the free function `pub(crate) fn wake(pipe: RawFd, method: WakeMethod)` (not WakeFd::wake)"""
    for nth in range(0, 4):
        try:
            sig, body, _ = find_fn(pipe, 'wake', nth=nth)
        except TranslateError:
            break
        if 'method' in sig and 'pipe' in sig:
            return body
    raise TranslateError('pipe::wake(pipe, method) not found')


if __name__ == '__main__':
    import sys
    print(translate(sys.argv[1] if len(sys.argv) > 1 else '/repo', {}))
