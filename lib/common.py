"""Shared machinery of ./check: paths, command runner, locking, translation, Coq build + audit,
extraction drivers, harness build, evidence and violation reporting."""
import fcntl, glob, hashlib, json, os, re, subprocess, sys, time

ROOT = os.path.dirname(os.path.dirname(os.path.abspath(__file__)))
REPO = os.environ.get('VERIF_REPO', '/repo')
COQ = os.path.join(ROOT, 'coq')
GEN = os.path.join(COQ, 'gen')
BUILD = os.path.join(ROOT, 'build')
HARNESS = os.path.join(ROOT, 'harness')
OCAML = os.path.join(ROOT, 'ocaml')
PROBE = os.path.join(HARNESS, 'target', 'debug', 'sh_probe')
GUARD = 'sighook_verif'
RUSTFLAGS = '--cfg %s --check-cfg cfg(%s)' % (GUARD, GUARD)

sys.path.insert(0, os.path.join(ROOT, 'translator'))

FORBIDDEN_TOKENS = r'\b(Admitted|admit|Axiom|Axioms|Parameter|Parameters|Conjecture|Hypothesis|Variable)\b|Unset\s+Guard|bypass_check|type-in-type|impredicative-set|Admit\s+Obligations|Unset\s+Universe\s+Checking|Unset\s+Positivity'
# Axioms of the Coq standard library that a theorem may depend on (named in the trusted base).
AXIOM_ALLOW = {
    'functional_extensionality_dep', 'proof_irrelevance', 'classic', 'JMeq_eq', 'Eqdep.Eq_rect_eq.eq_rect_eq',
    'eq_rect_eq', 'FunctionalExtensionality.functional_extensionality_dep',
}


def kill_tree(pid):
    """SIGKILL pid and every descendant (found through /proc/*/stat parent links)"""
    import signal
    kids = {}
    for d in os.listdir('/proc'):
        if d.isdigit():
            try:
                st = open('/proc/%s/stat' % d).read()
                ppid = int(st[st.rindex(')') + 2:].split()[1])
                kids.setdefault(ppid, []).append(int(d))
            except (OSError, ValueError, IndexError):
                pass
    todo, seen = [pid], []
    while todo:
        x = todo.pop()
        seen.append(x)
        todo += kids.get(x, [])
    # ... and whatever else lives in the session the command was started in (children re-parented to init)
    for d in os.listdir('/proc'):
        if d.isdigit() and int(d) not in seen:
            try:
                st = open('/proc/%s/stat' % d).read()
                if int(st[st.rindex(')') + 2:].split()[3]) == pid:
                    seen.append(int(d))
            except (OSError, ValueError, IndexError):
                pass
    for x in reversed(seen):
        try:
            os.kill(x, signal.SIGKILL)
        except OSError:
            pass


def sh(cmd, timeout=600, cwd=None, env=None, check=False, input=None):
    e = dict(os.environ)
    e['CARGO_NET_OFFLINE'] = 'true'
    if env:
        e.update(env)
    t0 = time.time()
    p = subprocess.Popen(cmd, shell=isinstance(cmd, str), cwd=cwd, env=e, stdout=subprocess.PIPE, stderr=subprocess.STDOUT,
                         stdin=subprocess.PIPE if input is not None else None, start_new_session=True)
    try:
        o, _ = p.communicate(input=input, timeout=timeout)
        out = o.decode('utf-8', 'replace')
        rc = p.returncode
    except subprocess.TimeoutExpired:
        # the probes fork children that put themselves into process groups of their own: kill the whole tree, not just the command
        kill_tree(p.pid)
        try:
            o, _ = p.communicate(timeout=3)
        except subprocess.TimeoutExpired:
            o = b''
        out = (o or b'').decode('utf-8', 'replace') + '\n[TIMEOUT after %ss]' % timeout
        rc = 124
    if check and rc != 0:
        raise RuntimeError('command failed (%d): %s\n%s' % (rc, cmd, out[-4000:]))
    return rc, out, time.time() - t0


class Lock:
    """Serialises builds (cargo, make, ocaml) between checks that run concurrently."""
    def __init__(self, name='build'):
        os.makedirs(BUILD, exist_ok=True)
        self.path = os.path.join(BUILD, name + '.lock')

    def __enter__(self):
        self.f = open(self.path, 'w')
        fcntl.flock(self.f, fcntl.LOCK_EX)
        return self

    def __exit__(self, *a):
        fcntl.flock(self.f, fcntl.LOCK_UN)
        self.f.close()


def write_if_changed(path, text):
    try:
        if open(path).read() == text:
            return False
    except FileNotFoundError:
        pass
    os.makedirs(os.path.dirname(path), exist_ok=True)
    tmp = path + '.tmp%d' % os.getpid()
    with open(tmp, 'w') as f:
        f.write(text)
    os.replace(tmp, path)
    return True


# ------------------------------------------------------------------------------------------
# harness
_harness_built = set()


def c_sources_tag():
    """The repository's build script compiles src/low_level/extract.c through the cc crate, which tells cargo to re-run it only
    when certain environment variables change - an edit of extract.c alone would leave a stale object in a warm target
    directory.  CFLAGS is one of those variables: a define carrying the hash of the C sources makes the build follow them."""
    import hashlib
    h = hashlib.sha1()
    for rel in ('src/low_level/extract.c', 'build.rs'):
        try:
            h.update(open(os.path.join(REPO, rel), 'rb').read())
        except OSError:
            h.update(b'-')
    return '-DSH_VERIF_C_SOURCES_%s=1' % h.hexdigest()[:16]


def build_harness(bins=None):
    """cargo build of the harness against /repo's current working tree, hooks enabled.
    bins: list of binary names (None = everything; sh_probe is always built)."""
    key = tuple(sorted(bins)) if bins else ('*',)
    if key in _harness_built or ('*',) in _harness_built:
        return True, ''
    with Lock('cargo'):
        lock = os.path.join(HARNESS, 'Cargo.lock')
        src = os.path.join(REPO, 'Cargo.lock')
        if not os.path.exists(lock) and os.path.exists(src):
            import shutil
            shutil.copy(src, lock)
        sel = '' if not bins else ' '.join('--bin ' + b for b in sorted(set(bins) | {'sh_probe'}))
        rc, out, _ = sh('cargo build --offline %s 2>&1' % sel, cwd=HARNESS, env={'RUSTFLAGS': RUSTFLAGS, 'CFLAGS': c_sources_tag()}, timeout=900)
    if rc == 0:
        _harness_built.add(key)
    return rc == 0, out


def bin_path(name):
    return os.path.join(HARNESS, 'target', 'debug', name)


def measured_consts():
    rc, out, _ = sh([PROBE, 'consts'], timeout=60)
    if rc != 0:
        raise RuntimeError('sh_probe consts failed: ' + out)
    return dict((l.split('=')[0], int(l.split('=')[1])) for l in out.split())


# ------------------------------------------------------------------------------------------
# translation
def translate(components):
    """Regenerate coq/gen/Extracted_<c>.v for each component from /repo's working tree.
    Returns {component: error-string or None}."""
    from rustsrc import TranslateError
    res = {}
    consts = None
    for c in components:
        try:
            if c == 'platform':
                import plat
                text, _ = plat.translate(BUILD)
            else:
                if consts is None:
                    consts = measured_consts()
                mod = __import__(c)
                text = mod.translate(REPO, consts)
            with Lock('gen'):
                write_if_changed(os.path.join(GEN, 'Extracted_%s.v' % c), text)
            import calls
            if c in calls.SPEC:
                # complete call lists of the functions this component is modelled on (pinned by <c>/Calls.v)
                ctext = calls.translate(REPO, c)
                with Lock('gen'):
                    write_if_changed(os.path.join(GEN, 'Extracted_calls_%s.v' % c), ctext)
            res[c] = None
        except (TranslateError, AssertionError, KeyError, IndexError, ValueError, FileNotFoundError, subprocess.CalledProcessError) as ex:
            res[c] = '%s: %s' % (type(ex).__name__, ex)
    return res


# ------------------------------------------------------------------------------------------
# Coq
def coq_project_files():
    """Every .v file of the development (pins/ and extract/ are compiled separately)."""
    files = []
    for d, _, fs in os.walk(COQ):
        rel = os.path.relpath(d, COQ)
        if rel.split(os.sep)[0] in ('pins', 'extract', 'audit'):
            continue
        for f in fs:
            if f.endswith('.v') and not f.startswith('.') and not f.lower().startswith(('dbg', 'tmp', 'scratch')) and '_tmp' not in f:
                files.append(os.path.normpath(os.path.join(rel, f)))
    return sorted(files)


def coq_makefile():
    """_CoqProject is generated from the directory listing, so adding a file needs no shared edit."""
    with Lock('coq'):
        proj = os.path.join(COQ, '_CoqProject')
        text = '-Q . SH\n-arg -w -arg -notation-overridden,-deprecated-hint-without-locality,-deprecated-instance-without-locality\n' + '\n'.join(coq_project_files()) + '\n'
        changed = write_if_changed(proj, text)
        mk = os.path.join(COQ, 'Makefile.coq')
        if changed or not os.path.exists(mk):
            sh('coq_makefile -f _CoqProject -o Makefile.coq', cwd=COQ, check=True)


def coq_make(targets, timeout=1500, jobs=16):
    """Full .vo build of the given targets (never -vos).  Returns (ok, output)."""
    coq_makefile()
    for attempt in (0, 1):
        with Lock('coq'):
            rc, out, dt = sh('make -f Makefile.coq -j%d %s 2>&1' % (jobs, ' '.join(targets)), cwd=COQ, timeout=timeout)
        if rc != 0 and 'No rule to make target' in out and attempt == 0:
            # a file listed in _CoqProject vanished (scratch file of a concurrent session): regenerate
            with Lock('coq'):
                try:
                    os.remove(os.path.join(COQ, '_CoqProject'))
                except OSError:
                    pass
            coq_makefile()
            continue
        break
    return rc == 0, out


def coq_failure_site(out):
    """From a coqc error message, name the file and the enclosing lemma."""
    m = re.search(r'File "\./([^"]+)", line (\d+)', out)
    if not m:
        return None
    f, line = m.group(1), int(m.group(2))
    name = None
    try:
        lines = open(os.path.join(COQ, f)).read().split('\n')
        for i in range(min(line, len(lines)) - 1, -1, -1):
            mm = re.match(r'\s*(Lemma|Theorem|Corollary|Example|Definition|Fixpoint|Fact|Remark)\s+([\w\']+)', lines[i])
            if mm:
                name = mm.group(2)
                break
    except OSError:
        pass
    err = out[m.start():m.start() + 600]
    return {'file': f, 'line': line, 'lemma': name, 'error': err}


def cone(vfile):
    """Transitive dependencies (our own .v files) of coq/<vfile>, via coqdep."""
    seen, todo = [], [vfile]
    while todo:
        f = todo.pop()
        if f in seen or not os.path.exists(os.path.join(COQ, f)):
            continue
        seen.append(f)
        rc, out, _ = sh('coqdep -Q . SH %s' % f, cwd=COQ)
        for dep in re.findall(r'(\S+)\.vo\b', out.split(':', 1)[1] if ':' in out else ''):
            d = dep + '.v'
            if d.startswith('./'):
                d = d[2:]
            if d != f and not d.startswith('/'):
                todo.append(d)
    return sorted(seen)


def count_obligations(files):
    """Number of Lemma/Theorem/... statements closed by Qed (or Defined) in the given files."""
    n = 0
    names = []
    for f in files:
        txt = strip_coq_comments(open(os.path.join(COQ, f)).read())
        for m in re.finditer(r'\b(Lemma|Theorem|Corollary|Example|Fact|Remark|Proposition)\s+([\w\']+)', txt):
            names.append('%s:%s' % (f, m.group(2)))
            n += 1
    return n, names


def strip_coq_comments(t):
    out, depth, i = [], 0, 0
    while i < len(t):
        if t.startswith('(*', i):
            depth += 1; i += 2
        elif t.startswith('*)', i) and depth:
            depth -= 1; i += 2
        else:
            if depth == 0:
                out.append(t[i])
            i += 1
    return ''.join(out)


def token_audit(files):
    """grep the development for forbidden tokens; returns list of hits."""
    hits = []
    for f in files:
        txt = strip_coq_comments(open(os.path.join(COQ, f)).read())
        for i, l in enumerate(txt.split('\n')):
            # `Variable`/`Hypothesis` are allowed inside a Section only; we simply forbid them
            # outside files that declare a Section.
            m = re.search(FORBIDDEN_TOKENS, l)
            if m:
                if m.group(0) in ('Variable', 'Hypothesis') and re.search(r'^\s*Section\b', txt, re.M):
                    continue
                hits.append('%s:%d: %s' % (f, i + 1, l.strip()))
    return hits


def audit_pins(prop):
    """Compile coq/pins/<prop>.v (Check name : statement.  Print Assumptions name.) and parse
    its output.  Returns (ok, details)."""
    pin = 'pins/%s.v' % prop
    with Lock('coq'):
        rc, out, dt = sh('coqc -Q . SH -w -notation-overridden %s 2>&1' % pin, cwd=COQ, timeout=600)
        for ext in ('vo', 'vok', 'vos', 'glob'):
            try:
                os.remove(os.path.join(COQ, 'pins', '%s.%s' % (prop, ext)))
            except OSError:
                pass
    if rc != 0:
        return False, {'error': out[-3000:], 'theorems': []}
    txt = strip_coq_comments(open(os.path.join(COQ, pin)).read())
    wanted = re.findall(r'Print\s+Assumptions\s+([\w\'.]+)\s*\.', txt)
    # split output into blocks per Print Assumptions
    blocks = re.split(r'(?m)^(?=Closed under the global context|Axioms:)', out)
    blocks = [b for b in blocks if b.startswith('Closed under') or b.startswith('Axioms:')]
    res, ok = [], len(blocks) == len(wanted)
    for name, b in zip(wanted, blocks):
        if b.startswith('Closed under'):
            res.append({'theorem': name, 'axioms': []})
        else:
            ax = re.findall(r'(?m)^([\w\'.]+)\s*:', b[len('Axioms:'):])
            res.append({'theorem': name, 'axioms': ax})
            for a in ax:
                if a.split('.')[-1] not in AXIOM_ALLOW and a not in AXIOM_ALLOW:
                    ok = False
    return ok, {'theorems': res, 'raw': out[-2000:] if not ok else ''}


# ------------------------------------------------------------------------------------------
# extracted model drivers
def build_driver(component, fns, make_targets, timeout=900):
    """make the model's Run file, coqc extract/X_<component>.v -> m_<component>.ml, generate the
    OCaml main from ocaml/main_template.ml and link build/driver_<component>."""
    import shutil
    os.makedirs(BUILD, exist_ok=True)
    ok, out = coq_make(make_targets, timeout=timeout)
    if not ok:
        return False, out
    with Lock('coq'):
        rc, out, _ = sh('coqc -Q . SH -w -notation-overridden,-extraction extract/X_%s.v 2>&1' % component, cwd=COQ, timeout=timeout)
        for ext in ('vo', 'vok', 'vos', 'glob'):
            try:
                os.remove(os.path.join(COQ, 'extract', 'X_%s.%s' % (component, ext)))
            except OSError:
                pass
    if rc != 0:
        return False, out
    with Lock('ocaml'):
        d = os.path.join(BUILD, 'ocaml_' + component)
        os.makedirs(d, exist_ok=True)
        for f in ('m_%s.ml' % component, 'm_%s.mli' % component):
            shutil.move(os.path.join(COQ, f), os.path.join(d, f))
        tmpl = open(os.path.join(OCAML, 'main_template.ml')).read()
        tmpl = tmpl.replace('MODULE', 'M_' + component).replace('TABLE', '; '.join('("%s", M.%s)' % (f, f) for f in fns))
        main = os.path.join(d, 'main_%s.ml' % component)
        new_src = open(os.path.join(d, 'm_%s.ml' % component)).read() + tmpl
        stamp = os.path.join(d, 'stamp')
        exe = os.path.join(BUILD, 'driver_' + component)
        h = hashlib.sha1(new_src.encode()).hexdigest()
        if os.path.exists(exe) and os.path.exists(stamp) and open(stamp).read() == h:
            return True, out
        open(main, 'w').write(tmpl)
        rc, out2, _ = sh('ocamlfind ocamlopt -w -a m_%s.mli m_%s.ml main_%s.ml -o %s 2>&1' % (component, component, component, exe), cwd=d, timeout=timeout)
        if rc == 0:
            open(stamp, 'w').write(h)
    return rc == 0, out + out2


def run_driver(component, lines, timeout=600):
    """Feed lines (each: '<fn> <ints...>') to the extracted model; returns list of output lines."""
    exe = os.path.join(BUILD, 'driver_' + component)
    rc, out, _ = sh([exe], input=('\n'.join(lines) + '\n').encode(), timeout=timeout)
    if rc != 0:
        raise RuntimeError('model driver %s failed: %s' % (component, out[-2000:]))
    return out.split('\n')[:len(lines)]


# ------------------------------------------------------------------------------------------
# known findings
def known_findings():
    try:
        return json.load(open(os.path.join(ROOT, 'known_findings.json')))
    except FileNotFoundError:
        return {'findings': [], 'fixed': []}


# ------------------------------------------------------------------------------------------
class Ctx:
    """State of one check run."""
    def __init__(self, prop, tier, seed):
        self.prop, self.tier, self.seed = prop, tier, seed
        self.t0 = time.time()
        self.broken = []        # obligations / correspondences that no longer check
        self.violations = []    # concrete failing inputs: dict(key=..., what=..., replay=...)
        self.obligations = 0
        self.discharged = 0
        self.obligation_names = []
        self.coverage = {}
        self.assumptions = []
        self.trusted_base = []
        self.samples = []
        self.evaluations = 0
        self.distinct = set()
        self.traces = 0
        self.notes = []
        self.level = 'proof'

    def log(self, *a):
        print('[%s %6.1fs]' % (self.prop, time.time() - self.t0), *a, flush=True)

    # --- steps -----------------------------------------------------------------------
    def harness(self, bins=None):
        ok, out = build_harness(bins)
        if not ok:
            self.broken.append({'kind': 'harness-build', 'name': 'cargo build of the harness against /repo', 'detail': out[-3000:]})
            self.log('harness build FAILED')
        return ok

    def translate(self, comps):
        res = translate(comps)
        self.translated = list(getattr(self, 'translated', [])) + [c for c in comps if c not in getattr(self, 'translated', [])]
        ok = True
        for c, err in res.items():
            self.obligations += 1
            if err:
                ok = False
                self.broken.append({'kind': 'translator', 'name': 'translate(%s)' % c, 'detail': err})
                self.log('translator failed for', c, err)
            else:
                self.discharged += 1
        return ok

    def prove(self, target_v):
        """make <target>.vo + token audit + pinned statements / Print Assumptions."""
        files = cone(target_v)
        n, names = count_obligations(files)
        self.obligations += n
        self.obligation_names = names
        ok, out = coq_make([target_v + 'o'])
        if not ok:
            site = coq_failure_site(out) or {'file': '?', 'lemma': None, 'error': out[-1500:]}
            self.broken.append({'kind': 'proof', 'name': '%s (%s)' % (site.get('lemma'), site.get('file')), 'detail': site.get('error')})
            self.log('proof obligation FAILED:', site.get('lemma'), 'in', site.get('file'))
            # count the obligations in files that did compile
            done = 0
            for f in files:
                if os.path.exists(os.path.join(COQ, f + 'o')) and os.path.getmtime(os.path.join(COQ, f + 'o')) >= os.path.getmtime(os.path.join(COQ, f)):
                    done += count_obligations([f])[0]
            self.discharged += min(done, n - 1)
            return False
        hits = token_audit(files)
        if hits:
            self.broken.append({'kind': 'audit', 'name': 'forbidden token', 'detail': '\n'.join(hits)})
            self.log('token audit FAILED', hits[:3])
            return False
        self.obligations += 1
        pok, det = audit_pins(self.prop)
        self.coverage['print_assumptions'] = det.get('theorems')
        if not pok:
            self.broken.append({'kind': 'audit', 'name': 'pinned statements / Print Assumptions (pins/%s.v)' % self.prop,
                                'detail': det.get('error') or det.get('raw')})
            self.log('pin/assumption audit FAILED')
            self.discharged += n
            return False
        self.discharged += n + 1
        # the complete call lists of the functions the translated components are modelled on
        for c in getattr(self, 'translated', []):
            if os.path.exists(os.path.join(COQ, c, 'Calls.v')) and not self.prove_dep('%s/Calls.v' % c, 'component %s is modelled on these functions: a call was added, dropped or replaced' % c):
                return False
        if self.tier == 'thorough':
            # independent re-check of the compiled theory with coqchk (lists every axiom of every loaded library)
            self.obligations += 1
            mod = 'SH.' + target_v[:-2].replace('/', '.')
            with Lock('coq'):
                rc, out, dt = sh('coqchk -silent -o -Q . SH %s 2>&1' % mod, cwd=COQ, timeout=3000)
            m = re.search(r'\* Axioms:(.*?)\n\s*\n\* Constants', out, re.S)
            axioms = [a.strip() for a in (m.group(1) if m else '?').split('\n') if a.strip()]
            self.coverage['coqchk'] = {'rc': rc, 'axioms': axioms, 'seconds': round(dt, 1)}
            bad = [a for a in axioms if a != '<none>' and a.split('.')[-1] not in AXIOM_ALLOW]
            if rc != 0 or bad or 'type-in-type: <none>' not in out or 'unsafe (co)fixpoints: <none>' not in out or 'positivity is assumed: <none>' not in out:
                self.broken.append({'kind': 'audit', 'name': 'coqchk %s' % mod, 'detail': out[-1500:]})
                self.log('coqchk FAILED')
                return False
            self.discharged += 1
        return True

    def prove_dep(self, target_v, why):
        """Another property's theorem file that this property's claim composes with: its cone must build
        too (no pins audit here - the owning check does that)."""
        files = cone(target_v)
        n, names = count_obligations(files)
        self.obligations += n
        ok, out = coq_make([target_v + 'o'])
        if not ok:
            site = coq_failure_site(out) or {'file': '?', 'lemma': None, 'error': out[-1500:]}
            self.broken.append({'kind': 'proof', 'name': '%s (%s) [needed because %s]' % (site.get('lemma'), site.get('file'), why), 'detail': site.get('error')})
            self.log('dependent proof obligation FAILED:', site.get('lemma'), 'in', site.get('file'))
            return False
        self.discharged += n
        return True

    def driver(self, component, fns, make_targets):
        ok, out = build_driver(component, fns, make_targets)
        if not ok:
            self.broken.append({'kind': 'extraction', 'name': 'extraction of model %s' % component, 'detail': out[-2000:]})
            self.log('model extraction FAILED for', component)
        return ok

    def correspondence(self, name, ok, detail=None):
        self.obligations += 1
        if ok:
            self.discharged += 1
        else:
            self.broken.append({'kind': 'correspondence', 'name': name, 'detail': detail})
            self.log('correspondence FAILED:', name, (str(detail) or '')[:300])

    def violation(self, key, what, case):
        if not isinstance(key, str):
            key = json.dumps(key, sort_keys=True)
        self.violations.append({'key': key, 'what': what, 'case': case})

    # --- finish -----------------------------------------------------------------------
    def finish(self):
        wall = time.time() - self.t0
        kf = known_findings()
        known_keys = {(f['property'], f['key']): f for f in kf.get('findings', [])}
        new_viol = []
        for v in self.violations:
            k = (self.prop, v['key'])
            if k in known_keys:
                print('KNOWN-FINDING: property=%s %s' % (self.prop, known_keys[k].get('what', v['what'])), flush=True)
            else:
                new_viol.append(v)
        rc = 0
        os.makedirs(os.path.join(ROOT, 'replays'), exist_ok=True)
        if new_viol:
            for v in new_viol:
                h = hashlib.sha1(json.dumps(v['key'], sort_keys=True).encode()).hexdigest()[:10]
                path = os.path.join(ROOT, 'replays', '%s-%s.json' % (self.prop, h))
                json.dump({'property': self.prop, 'found': True, 'what': v['what'], 'key': v['key'], 'case': v['case'],
                           'broken': self.broken, 'seed': self.seed, 'tier': self.tier}, open(path, 'w'), indent=1)
                print('VIOLATION property=%s replay=%s' % (self.prop, path), flush=True)
            rc = 1
        elif self.broken and not (self.violations and not new_viol and self._broken_explained_by_known()):
            h = hashlib.sha1(json.dumps([b['name'] for b in self.broken]).encode()).hexdigest()[:10]
            path = os.path.join(ROOT, 'replays', '%s-broken-%s.json' % (self.prop, h))
            json.dump({'property': self.prop, 'found': False, 'broken': self.broken, 'seed': self.seed, 'tier': self.tier,
                       'note': 'a proof obligation or correspondence no longer checks; the search over model and implementation found no concrete failing input'},
                      open(path, 'w'), indent=1)
            print('VIOLATION property=%s replay=%s no-failing-input-found' % (self.prop, path), flush=True)
            rc = 1
        cov = dict(self.coverage)
        tb = list(self.trusted_base)
        if getattr(self, 'translated', None):
            tb.append('translator/calls.py + rustsrc.cfg_filter/all_calls (complete call lists of the modelled functions, cfg filtering for linux/x86_64); '
                      'the literal lists in coq/<component>/Calls.v were taken from the source when the models were written')
        if 'nested_instruction_sweep' in cov or 'nested2_instruction_sweep' in cov:
            tb.append('harness/src/bin/p_nested.rs, p_nested2.rs: x86-64 trap-flag single-stepping, SIGTRAP handler running the nested operation (fork per boundary in p_nested2); '
                      'outcome sets of the extracted SC model over step boundaries as the oracle')
        if 'instruction_registry_sweep' in cov:
            tb.append('harness/src/bin/p_nested_reg.rs: trap-flag single-stepping of register / unregister / unregister_signal + fork per boundary, raise(SIGUSR1) on the same thread inside the child; the oracle is the property text evaluated in the child')
        if 'instruction_close_sweep' in cov or 'instruction_poll_sweep' in cov:
            tb.append('harness/src/bin/p_nested_close.rs: trap-flag single-stepping + fork per boundary, Handle::close() called inside the SIGTRAP handler of the child')
        if 'instruction_delivery_sweep' in cov or 'instruction_drop_sweep' in cov:
            tb.append('harness/src/bin/p_nested_iter.rs: trap-flag single-stepping + fork per boundary, sigqueue of the real signal inside the child, the shared self-pipe '
                      'socket restored by the parent (FIONREAD / drain / refill); the oracle is the property text evaluated in the child')
        self.trusted_base = tb
        cov.update({
            'obligations': max(self.obligations, 1),
            'discharged': max(self.discharged, 1) if rc == 0 else self.discharged,
            'checker_cmd': 'cd /verif/coq && make -f Makefile.coq props/%s.vo && coqc -Q . SH pins/%s.v  (Coq 8.16.1; via /verif/check %s)' % (self.prop, self.prop, self.prop),
            'trusted_base': self.trusted_base,
            'evaluations': self.evaluations,
            'distinct_nontrivial': len(self.distinct),
            'traces_validated_against_impl': self.traces,
            'samples': self.samples[:12] if self.samples else [n for n in self.obligation_names[:8]],
            'broken': [b['name'] for b in self.broken],
        })
        ev = {'property_id': self.prop, 'tier': self.tier, 'seed': self.seed, 'level': self.level,
              'coverage': cov, 'assumptions': self.assumptions, 'wall_s': round(wall, 2),
              'violations': len(new_viol) + (1 if (rc == 1 and not new_viol) else 0)}
        os.makedirs(os.path.join(ROOT, 'evidence'), exist_ok=True)
        json.dump(ev, open(os.path.join(ROOT, 'evidence', self.prop + '.json'), 'w'), indent=1)
        self.log('done rc=%d obligations=%d discharged=%d evaluations=%d wall=%.1fs' % (rc, self.obligations, self.discharged, self.evaluations, wall))
        return rc

    def _broken_explained_by_known(self):
        return False
