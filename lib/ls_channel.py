"""Lock-step correspondence for the 5-slot channel (DESIGN 4.2, 5.6-5.8): scenario + schedule
generators, runners for the implementation (harness/src/bin/ls_channel.rs) and the extracted SC
model (coq/channel/Run.v), trace comparison, and the property monitors evaluated on the
implementation's traces.  Shared by C06, C07, C08.

Trace line = (act, op, loc, arg, arg2, res, ok, ord, ord_fail); act -1 = main thread (new(),
set-up, final drain); op 0 load, 5 compare_exchange_weak, 13 cell write, 14 cell take, 23 return
(res 0 = send / recv None, tag+1 = recv Some); loc 1 empty, 2 full, 3 channel (arg = slot index),
9 the temporary new() fills."""
import random
from collections import deque
import common

OPNAME = {0: 'load', 5: 'cas', 13: 'cell-write', 14: 'cell-take', 23: 'ret'}
LOCNAME = {0: '-', 1: 'empty', 2: 'full', 3: 'cell', 9: 'new.tmp', -1: '?'}
ORDNAME = {0: 'Relaxed', 1: 'Release', 2: 'Acquire', 3: 'AcqRel', 4: 'SeqCst', 255: '-'}
SEND, RECV = 1, 2
SLOTS = 5
DRIVER = (['run_channel', 'run_history', 'run_ra'], ['channel/Run.vo', 'channel/RunRA.vo'])


class Scenario:
    def __init__(self, name, setup, acts, sched):
        self.name, self.setup, self.acts, self.sched = name, setup, acts, sched

    def ints(self):
        v = [len(self.setup)] + [x for o in self.setup for x in o]
        v.append(len(self.acts))
        for ops in self.acts:
            v += [len(ops)] + [x for o in ops for x in o]
        v += [len(self.sched)] + [x for st in self.sched for x in st]
        return v

    def line(self):
        return ' '.join(str(x) for x in self.ints())

    def json(self):
        return {'system': 'channel', 'name': self.name, 'setup': self.setup, 'acts': self.acts, 'schedule': self.sched}


def from_json(j):
    return Scenario(j.get('name', 'replay'), [tuple(x) for x in j['setup']], [[tuple(o) for o in a] for a in j['acts']],
                    [tuple(x) for x in j['schedule']])


def shapes():
    """(name, number of set-up sends, activities as lists of 's'/'r')"""
    return [
        ('send|recv', 0, ['s', 'r']),
        ('send|recv/1', 1, ['s', 'r']),
        ('send|send', 0, ['s', 's']),
        ('send|send/3', 3, ['s', 's']),
        ('recv|recv/2', 2, ['r', 'r']),
        ('send|recv/full', 5, ['s', 'r']),
        ('send|send/4', 4, ['s', 's']),             # one slot left: one of them may be dropped
        ('nested-send-in-send', 2, ['s', 's']),     # a send running while another send is parked between its queue operations
        ('nested-send-in-recv', 2, ['r', 's']),
        ('nested-2send-in-recv/4', 4, ['r', 'ss']),
        ('ss|rr', 0, ['ss', 'rr']),
        ('sss|rrr/3', 3, ['sss', 'rrr']),
        ('send|send|recv', 1, ['s', 's', 'r']),
        ('send|recv|recv/2', 2, ['s', 'r', 'r']),
        ('ss|s|rr/3', 3, ['ss', 's', 'rr']),
        ('send|send|send/3', 3, ['s', 's', 's']),
        ('sr|rs|s/4', 4, ['sr', 'rs', 's']),
        ('aba', 2, ['s', 'sss', 'rrrr']),
    ]


def build(name, nsetup, acts, sched):
    tag = [0]

    def op(c):
        if c == 's':
            tag[0] += 1
            return (SEND, tag[0] - 1)
        return (RECV, 0)
    setup = [op('s') for _ in range(nsetup)]
    return Scenario(name, setup, [[op(c) for c in a] for a in acts], sched)


def steps_of(a):
    """upper bound on the number of grants an activity needs when nobody interferes"""
    return 1 + 5 * len(a)


def gen(seed, tier):
    rnd = random.Random(seed * 7919 + 17)
    scen = []
    per = 30 if tier == 'quick' else 600
    for name, nsetup, acts in shapes():
        n = len(acts)
        if n == 2:
            # every split point of one activity against the other run to completion, both orders,
            # without and with spurious failures
            for first in (0, 1):
                other = 1 - first
                for i in range(0, steps_of(acts[first]) + 3):
                    tail = [(other, 0)] * (steps_of(acts[other]) + 4) + [(first, 0)] * (steps_of(acts[first]) + 4)
                    scen.append(build(name, nsetup, acts, [(first, 0)] * i + tail))
                    sp = [(first, rnd.choice((0, 0, 1))) for _ in range(i)]
                    tail2 = [(other, rnd.choice((0, 0, 0, 1))) for _ in range(steps_of(acts[other]) + 8)]
                    scen.append(build(name, nsetup, acts, sp + tail2 + [(first, 0)] * (steps_of(acts[first]) + 4)))
            for _ in range(per):
                i, j, l = rnd.randint(0, 7), rnd.randint(1, 8), rnd.randint(0, 7)
                first = rnd.randint(0, 1)
                sc = [(first, 0)] * i + [(1 - first, 0)] * j + [(first, 0)] * l
                sc = [(a, 1 if rnd.random() < 0.12 else 0) for a, _ in sc]
                scen.append(build(name, nsetup, acts, sc))
        if name == 'aba':
            # a sender parked inside its enqueue while the others turn the ring: receiver ops, sender ops, receiver ops
            # (whole operations: 6 steps each), then the parked sender goes on - the head index can be the same again
            # although the queue got shorter
            for i in range(0, 7):
                for a in (0, 6, 12):
                    for b in (0, 6, 12, 18):
                        for c in (0, 6, 12):
                            scen.append(build(name, nsetup, acts, [(0, 0)] * i + [(2, 0)] * a + [(1, 0)] * b + [(2, 0)] * c + [(0, 0)] * 10 + [(1, 0)] * 30 + [(2, 0)] * 30))
        for _ in range(per * 2):
            ln = rnd.randint(3, 10 * n)
            sched = []
            while len(sched) < ln:
                a = rnd.randrange(n)
                sched += [(a, 1 if rnd.random() < 0.1 else 0) for _ in range(rnd.randint(1, 5))]
            scen.append(build(name, nsetup, acts, sched))
    return scen


def run_impl(scen, timeout=1500):
    exe = common.bin_path('ls_channel')
    rc, out, _ = common.sh([exe], input=('\n'.join('S ' + s.line() for s in scen) + '\n').encode(), timeout=timeout)
    lines = out.split('\n')
    res = []
    for i, s in enumerate(scen):
        l = lines[i] if i < len(lines) else '!missing'
        if not l.startswith('T'):
            res.append({'error': l, 'trace': [], 'finished': [], 'stuck': True, 'panicked': []})
            continue
        parts = [p.strip() for p in l.split('|')]
        t = [int(x) for x in parts[0][1:].split()]
        trace = [tuple(t[j:j + 9]) for j in range(0, len(t), 9)]
        # new() works on a temporary: unknown addresses on the main thread before anything else
        trace = [(l[0], l[1], 9, *l[3:]) if (l[2] == -1 and l[0] == -1) else l for l in trace]
        fin = [int(x) for x in parts[1][1:].split()]
        pan = [int(x) for x in parts[2][1:].split()]
        st = [int(x) for x in parts[3][1:].split()]
        res.append({'trace': trace, 'finished': fin, 'panicked': pan, 'stuck': bool(st[0]), 'drain': st[1], 'unique': st[2],
                    'before': [int(x) for x in parts[4][1:].split()], 'after': [int(x) for x in parts[5][1:].split()],
                    'created': [int(x) for x in parts[6][1:].split()]})
    return res


def run_model(scen):
    outs = common.run_driver('channel', ['run_channel ' + s.line() for s in scen])
    res = []
    for l in outs:
        t = [int(x) for x in l.split()] if l and not l.startswith('!') else [-99]
        if -2 in t and -1 in t:
            k2 = len(t) - 1 - t[::-1].index(-2)
            pan = t[k2 + 1:]
            n = len(pan)
            k1 = k2 - n - 1
            ev, fin = t[:k1], t[k1 + 1:k2]
        else:
            ev, fin, pan = t, [], []
        res.append({'trace': [tuple(ev[j:j + 9]) for j in range(0, len(ev), 9)], 'finished': fin, 'panicked': pan})
    return res


def pretty(line):
    a, op, loc, arg, arg2, res, ok, o1, o2 = line
    who = 'main' if a < 0 else 'A%d' % a
    if op == 0:
        return '%s %s.load(%s) -> %d' % (who, LOCNAME.get(loc, loc), ORDNAME.get(o1, o1), res)
    if op == 5:
        return '%s %s.compare_exchange_weak(%d, %d, %s, %s) -> %s(%d)' % (who, LOCNAME.get(loc, loc), arg, arg2, ORDNAME.get(o1, o1),
                                                                     ORDNAME.get(o2, o2), 'Ok' if ok else 'Err', res)
    if op in (13, 14):
        return '%s %s storage[%d-1]' % (who, OPNAME[op], arg)
    if op == 23:
        return '%s return %d' % (who, res)
    return '%s op%d loc%d %d %d -> %d ok=%d' % (who, op, loc, arg, arg2, res, ok)


def first_diff(ti, tm):
    for i in range(max(len(ti), len(tm))):
        a = ti[i] if i < len(ti) else None
        b = tm[i] if i < len(tm) else None
        if a != b:
            return i, a, b
    return None


def decode_word(w):
    out = []
    while w & 7:
        out.append(w & 7)
        w >>= 3
    return out


# ------------------------------------------------------------------------------------------
# reconstruction of the calls from a trace
class Call:
    def __init__(self, act, opi, kind, tag):
        self.act, self.opi, self.kind, self.tag = act, opi, kind, tag
        self.lines = []          # indices into the trace
        self.deq_at = None       # trace index of the successful dequeue CAS
        self.enq_at = None       # trace index of the successful enqueue CAS
        self.cell_at = None
        self.idx = None
        self.ret = None
        self.ret_at = None
        self.last_read = None    # (trace index, value) of the last value read from the dequeue queue


def calls_of(s, r):
    """Split the implementation's trace into calls.  Returns (calls in order of begin, error list)."""
    errs = []
    main_ops = list(s.setup)
    plan = {-1: main_ops}
    for a, ops in enumerate(s.acts):
        plan[a] = list(ops)
    pos = {a: 0 for a in plan}
    cur = {}
    calls = []
    for i, l in enumerate(r['trace']):
        a, op, loc, arg, arg2, res, ok, o1, o2 = l
        if loc == 9:
            continue
        c = cur.get(a)
        if c is None:
            ops = plan.get(a, [])
            if pos[a] < len(ops):
                k, tag = ops[pos[a]]
            elif a == -1:
                k, tag = RECV, 0      # final drain
            else:
                errs.append((i, 'activity A%d performs an operation beyond its program' % a))
                k, tag = RECV, 0
            c = Call(a, pos[a], k, tag)
            pos[a] += 1
            cur[a] = c
            calls.append(c)
        c.lines.append(i)
        if op in (0, 5):
            in_deq = c.deq_at is None
            want = (1 if c.kind == SEND else 2) if in_deq else (2 if c.kind == SEND else 1)
            if loc != want:
                errs.append((i, '%s touches queue %s where %s is expected' % (pretty(l), LOCNAME.get(loc), LOCNAME.get(want))))
            if in_deq and not (op == 5 and ok):
                c.last_read = (i, res)
            if op == 5 and ok:
                if in_deq:
                    c.deq_at, c.idx = i, arg & 7
                else:
                    c.enq_at = i
        elif op in (13, 14):
            c.cell_at = i
            if (op == 13) != (c.kind == SEND):
                errs.append((i, 'wrong kind of cell access'))
        elif op == 23:
            c.ret, c.ret_at = res, i
            cur[a] = None
    return calls, errs


# ------------------------------------------------------------------------------------------
# monitors on the implementation's trace; each returns a list of (kind, trace index, text)
def mon_c06(s, r):
    viol = []
    calls, errs = calls_of(s, r)
    viol += [('trace-shape', i, t) for i, t in errs]
    sends = sorted((c for c in calls if c.kind == SEND and c.enq_at is not None), key=lambda c: c.enq_at)
    recvs = sorted((c for c in calls if c.kind == RECV and c.deq_at is not None), key=lambda c: c.deq_at)
    sent_order = [c.tag + 1 for c in sends]
    got_order = [c.ret for c in recvs]
    complete = all(r['finished']) and not any(r['panicked']) and not r['stuck']
    if got_order != sent_order[:len(got_order)]:
        viol.append(('fifo-order', -1, 'values in the order of the successful dequeue(full) CASes %s are not a prefix of the values in the '
                     'order of the successful enqueue(full) CASes %s' % (got_order, sent_order)))
    if complete and len(got_order) != len(sent_order):
        viol.append(('fifo-loss', -1, 'after the final drain %d values were received but %d sends took effect' % (len(got_order), len(sent_order))))
    if len(set(got_order)) != len(got_order):
        viol.append(('fifo-dup', -1, 'a value was received twice: %s' % got_order))
    for c in calls:
        if c.kind == RECV and c.deq_at is None and c.ret not in (0, None):
            viol.append(('fifo-invented', c.ret_at, 'recv returned %d without a successful dequeue' % c.ret))
        if c.kind == RECV and c.deq_at is not None and c.ret == 0:
            viol.append(('fifo-lost', c.ret_at, 'recv dequeued index %d but returned None' % c.idx))
    # per producer: program order
    for a in set(c.act for c in sends):
        mine = [c.opi for c in sends if c.act == a]
        if mine != sorted(mine):
            viol.append(('fifo-producer-order', -1, 'sends of activity %d took effect out of program order' % a))
    # discarded / empty only for the right reason: replay the ownership state along the trace
    full_len, inflight, sent_eff, deq_eff = 0, 0, 0, 0
    when = {}
    for c in calls:
        for what, at in (('deq', c.deq_at), ('enq', c.enq_at)):
            if at is not None:
                when[at] = (c, what)
    state_at = {}
    for i in range(len(r['trace'])):
        state_at[i] = (full_len, inflight, sent_eff, deq_eff)
        if i in when:
            c, what = when[i]
            if what == 'deq':
                inflight += 1
                if c.kind == RECV:
                    full_len -= 1; deq_eff += 1
            else:
                inflight -= 1
                if c.kind == SEND:
                    full_len += 1; sent_eff += 1
    for c in calls:
        if c.ret is None or c.deq_at is not None:
            continue
        if c.last_read is None:
            viol.append(('no-read', c.ret_at, 'operation returned without reading its queue'))
            continue
        at, val = c.last_read
        fl, infl, se, de = state_at[at]
        if c.kind == SEND:
            if val != 0 or fl + infl != SLOTS:
                viol.append(('drop-not-full', at, 'send(tag %d) was discarded on reading empty=%d while only %d values were in `full` and %d slots '
                             'in flight' % (c.tag, val, fl, infl)))
        else:
            if val != 0 or se != de:
                viol.append(('empty-not-empty', at, 'recv returned None on reading full=%d while %d sends had taken effect and %d were dequeued'
                             % (val, se, de)))
    return viol


def mon_c08(s, r):
    viol = []
    if any(r['panicked']):
        viol.append(('panic', -1, 'an operation panicked: %s' % r['panicked']))
    if r['stuck'] or not all(r['finished']):
        viol.append(('stuck', -1, 'activities did not finish: %s' % r['finished']))
    calls, _ = calls_of(s, r)
    for c in calls:
        progress = 0
        for i in c.lines:
            a, op, loc, arg, arg2, res, ok, o1, o2 = r['trace'][i]
            if op not in (0, 5, 13, 14, 23):
                viol.append(('foreign-op', i, 'operation %d inside a channel call' % op))
            if op == 23:
                continue
            if not (op == 5 and not ok):
                progress += 1
        if progress > 5:
            viol.append(('steps', c.lines[0], 'a call took %d steps other than failed CASes (bound 5)' % progress))
        if c.ret is None and all(r['finished']) and not any(r['panicked']):
            viol.append(('no-return', c.lines[0], 'call without return'))
    return viol


def mon_c07(s, r):
    """payload accounting + cell discipline + happens-before race detection with the orderings
    the operations declare (taken from the trace lines themselves)."""
    viol = []
    created, before, after = r.get('created', []), r.get('before', []), r.get('after', [])
    complete = all(r['finished']) and not any(r['panicked']) and not r['stuck']
    if complete:
        for t, c in enumerate(created):
            if c != 1:
                viol.append(('payload-created', -1, 'payload %d constructed %d times' % (t, c)))
        for t, d in enumerate(after):
            if d != 1:
                viol.append(('payload-drop', -1, 'payload %d dropped %d times (after the channel was dropped)' % (t, d)))
        for t, d in enumerate(before):
            if d > 1:
                viol.append(('payload-double-drop', -1, 'payload %d dropped %d times' % (t, d)))
    calls, _ = calls_of(s, r)
    # cell discipline: write / take alternate per cell, a take returns what the last write stored
    content = {}
    by_line = {}
    for c in calls:
        if c.cell_at is not None:
            by_line[c.cell_at] = c
    for i in sorted(by_line):
        c = by_line[i]
        idx = r['trace'][i][3]
        if not 1 <= idx <= SLOTS:
            viol.append(('cell-range', i, 'cell index %d' % idx))
        if c.kind == SEND:
            if content.get(idx) is not None:
                viol.append(('cell-overwrite', i, 'cell %d written while it holds payload %d' % (idx, content[idx] - 1)))
            content[idx] = c.tag + 1
        else:
            if content.get(idx) is None:
                viol.append(('cell-empty-take', i, 'cell %d taken while empty' % idx))
            elif c.ret is not None and c.ret != content[idx]:
                viol.append(('cell-integrity', i, 'cell %d held payload %d but recv returned %d' % (idx, content[idx] - 1, c.ret - 1)))
            content[idx] = None
    # vector clocks: threads = activities (+ main, which is ordered before the activities start
    # and after they finish); release/acquire edges only where the declared ordering gives them
    nact = len(s.acts)
    ids = {a: a + 1 for a in range(nact)}
    ids[-1] = 0
    vc = {t: [0] * (nact + 1) for t in range(nact + 1)}
    for t in vc:
        vc[t][t] = 1
    locvc = {1: [0] * (nact + 1), 2: [0] * (nact + 1)}
    lastacc = {}
    started = set()
    main_joined = False

    def join(a, b):
        return [max(x, y) for x, y in zip(a, b)]
    for i, l in enumerate(r['trace']):
        a, op, loc, arg, arg2, res, ok, o1, o2 = l
        if loc == 9:
            continue
        t = ids.get(a, 0)
        if a >= 0 and a not in started:
            started.add(a)
            vc[t] = join(vc[t], vc[0]); vc[t][t] += 1
        if a == -1 and started and not main_joined:
            main_joined = True
            for b in range(1, nact + 1):
                vc[0] = join(vc[0], vc[b])
        if op == 0 and loc in locvc:
            if o1 in (2, 3, 4):
                vc[t] = join(vc[t], locvc[loc])
        elif op == 5 and loc in locvc:
            if ok:
                if o1 in (2, 3, 4):
                    vc[t] = join(vc[t], locvc[loc])
                if o1 in (1, 3, 4):
                    locvc[loc] = join(locvc[loc], vc[t])
                # a relaxed RMW continues the release sequence: the location clock is kept
            elif o2 in (2, 3, 4):
                vc[t] = join(vc[t], locvc[loc])
            vc[t][t] += 1
        elif op in (13, 14):
            prev = lastacc.get(arg)
            if prev is not None:
                pt, pclock = prev
                if vc[t][pt] < pclock:
                    viol.append(('race', i, 'cell %d: %s is not ordered after the previous access by %s under the declared orderings'
                                 % (arg, pretty(l), 'main' if pt == 0 else 'A%d' % (pt - 1))))
            vc[t][t] += 1
            lastacc[arg] = (t, vc[t][t])
    return viol


# ------------------------------------------------------------------------------------------
def lockstep(ctx, monitors, corr_name='lock-step: SC channel model trace = implementation trace (same schedules)'):
    scen = gen(ctx.seed, ctx.tier)
    impl = run_impl(scen)
    ok_driver = ctx.driver('channel', *DRIVER)
    model = run_model(scen) if ok_driver else None
    diffs, seen, switches, spurious, nested = [], set(), 0, 0, 0
    reported = {}
    for i, (s, r) in enumerate(zip(scen, impl)):
        ctx.evaluations += 1
        if 'error' in r:
            diffs.append({'scenario': s.json(), 'error': r['error']})
            ctx.violation({'monitor': 'crash', 'scenario': s.name, 'setup': s.setup, 'acts': s.acts, 'schedule': s.sched},
                          'the scenario process died: %s' % r['error'], {'scenario': s.json()})
            continue
        sched_part = [l for l in r['trace'] if l[0] >= 0]
        key = (s.name, tuple(r['trace']))
        if key not in seen and len(set(l[0] for l in sched_part)) > 1:
            seen.add(key)
            ctx.distinct.add(hash(key))
        switches += sum(1 for a, b in zip(sched_part, sched_part[1:]) if a[0] != b[0])
        spurious += sum(1 for l in r['trace'] if l[1] == 5 and not l[6] and l[5] == l[3])
        calls, _ = calls_of(s, r)
        for c in calls:
            if c.deq_at is not None and c.enq_at is not None and any(
                    d.act != c.act and d.lines and d.ret_at is not None and c.deq_at < d.lines[0] and d.ret_at < c.enq_at for d in calls):
                nested += 1
        if model is not None:
            d = first_diff(r['trace'], model[i]['trace'])
            if d is None and (r['finished'] != model[i]['finished'] or r['panicked'] != model[i]['panicked']):
                d = (-1, (r['finished'], r['panicked']), (model[i]['finished'], model[i]['panicked']))
            if d is not None:
                idx, a, b = d
                diffs.append({'scenario': s.json(), 'step': idx, 'impl': pretty(a) if isinstance(a, tuple) and len(a) == 9 else a,
                              'model': pretty(b) if isinstance(b, tuple) and len(b) == 9 else b})
            else:
                ctx.traces += 1
        for mon in monitors:
            for kind, idx, what in mon(s, r):
                reported[kind] = reported.get(kind, 0) + 1
                if reported[kind] > 3:       # the first three inputs per kind of failure are enough
                    continue
                ctx.violation({'monitor': kind, 'scenario': s.name, 'setup': s.setup, 'acts': s.acts, 'schedule': s.sched},
                              what, {'scenario': s.json(), 'trace': [pretty(l) for l in r['trace']], 'at': idx})
    if model is not None:
        ctx.correspondence(corr_name, not diffs, diffs[:3])
    if reported:
        ctx.coverage['monitor_hits'] = reported
    ctx.coverage['input_distribution'] = {
        'scenarios': len(scen), 'kinds': sorted(set(s.name for s in scen)),
        'distinct_interleaved_traces': len(seen), 'context_switches_total': switches,
        'spurious_cas_failures_injected': spurious, 'calls_completed_inside_another_calls_window': nested,
        'mean_trace_len': round(sum(len(r['trace']) for r in impl) / max(1, len(impl)), 1)}
    if not ctx.samples and scen:
        j = min(40, len(scen) - 1)
        ctx.samples = [{'scenario': scen[j].json(), 'impl_trace': [pretty(l) for l in impl[j]['trace']][:60]}]
    return scen, impl


# ------------------------------------------------------------------------------------------
# single-thread histories against an abstract bounded FIFO of capacity 5
def gen_histories(seed, n):
    rnd = random.Random(seed * 104729 + 5)
    out = []
    for h in range(n):
        ln = rnd.randint(1, 200)
        p = rnd.choice((0.3, 0.5, 0.7, 0.9))
        ops, tag = [], 0
        for _ in range(ln):
            if rnd.random() < p:
                ops.append((SEND, tag)); tag += 1
            else:
                ops.append((RECV, 0))
        out.append(ops)
    return out


def spec_history(ops):
    q, res, dropped = deque(), [], []
    for k, x in ops:
        if k == SEND:
            if len(q) < SLOTS:
                q.append(x)
            else:
                dropped.append(x)
            res.append(0)
        else:
            res.append(q.popleft() + 1 if q else 0)
    return res, dropped, list(q)


def histories(ctx, n=500):
    hs = gen_histories(ctx.seed, n)
    exe = common.bin_path('ls_channel')
    rc, out, _ = common.sh([exe], input=('\n'.join('H %d %s' % (len(h), ' '.join('%d %d' % o for o in h)) for h in hs) + '\n').encode(), timeout=900)
    lines = out.split('\n')
    model = common.run_driver('channel', ['run_history %d %s' % (len(h), ' '.join('%d %d' % o for o in h)) for h in hs])
    bad_model, nviol = [], 0
    for i, h in enumerate(hs):
        ctx.evaluations += 1
        exp, dropped, left = spec_history(h)
        l = lines[i] if i < len(lines) else '!missing'
        case = {'history': h}
        if not l.startswith('R'):
            ctx.violation({'monitor': 'history-crash', 'history': h}, 'single-thread history died: %s' % l, case)
            continue
        parts = [p.strip() for p in l.split('|')]
        got = [int(x) for x in parts[0][1:].split()]
        before = [int(x) for x in parts[1][1:].split()]
        after = [int(x) for x in parts[2][1:].split()]
        created = [int(x) for x in parts[3][1:].split()]
        if got != exp:
            j = next(k for k in range(len(exp)) if k >= len(got) or got[k] != exp[k])
            ctx.violation({'monitor': 'history-fifo', 'history': h}, 'operation %d returned %s, the bounded FIFO of capacity 5 returns %d'
                          % (j, got[j] if j < len(got) else None, exp[j]), case)
            nviol += 1
        exp_before = [0 if t in left else 1 for t in range(len(created))]
        if created != [1] * len(created) or after != [1] * len(after) or before != exp_before:
            ctx.violation({'monitor': 'history-drops', 'history': h}, 'payload accounting: created %s, dropped before the channel %s (expected %s), '
                          'after %s' % (created, before, exp_before, after), case)
            nviol += 1
        m = [int(x) for x in model[i].split()] if model[i] and not model[i].startswith('!') else None
        if m != got:
            bad_model.append({'history': h, 'impl': got, 'model': m})
        else:
            ctx.traces += 1
        ctx.distinct.add(hash(tuple(h)))
    ctx.correspondence('differential: %d single-thread send/recv histories, SC model results = implementation results' % n, not bad_model, bad_model[:2])
    ctx.coverage['histories'] = {'count': n, 'max_len': max(len(h) for h in hs), 'mean_len': round(sum(len(h) for h in hs) / n, 1)}
    return nviol


# ------------------------------------------------------------------------------------------
# model-side search in the view semantics (coq/channel/ModelRA.v via RunRA.v): random schedules
# with random read-from choices; a frame ending in RACE / PANIC is a weak-memory execution that
# breaks C07 / C08.  x86 hardware cannot exhibit it; the replay is a model execution.
BADNAME = {1: 'panic: No empty slot available', 2: 'panic: Full slot with nothing in it', 3: 'panic: storage index out of range',
           11: 'RACE: channel used without its construction in view (Slot publication)', 12: 'RACE: unordered accesses to a payload cell'}


def ra_gen(rnd):
    n = rnd.randint(2, 4)
    labels, tag, frames = [], 0, 0
    for _ in range(rnd.randint(8, 50)):
        if frames < n and (frames == 0 or rnd.random() < 0.2):
            kind = rnd.choice((1, 1, 2))
            p = 0 if frames == 0 or rnd.random() < 0.5 else rnd.randint(1, frames)
            labels.append((1, kind, tag, p)); tag += 1; frames += 1
        else:
            k = rnd.randrange(frames)
            for _ in range(rnd.randint(1, 4)):
                labels.append((0, k, rnd.choice((0, 0, 0, 1, 1, 2, 3, 5)), 0))
    return labels


RA_MAX_FRAMES = 18
RA_FULL_OP = 12      # steps that complete any operation running alone (extra steps of a finished frame are no-ops)


def ra_gen_threads(rnd, directed=None):
    """program-order executions: 2-3 threads, each a SEQUENCE of operations (a frame inherits the view of its
    thread's previous frame), interleaved mostly at operation granularity with a few operations stalled part-way
    while the others go on (the shape an ABA on a queue word needs: a stalled dequeuer, the slots going a full round).
    directed = (kind of the stalled operation, steps it takes before the stall, operations that pass meanwhile)"""
    labels, tag = [], [1]
    last = {}                     # thread -> index of its latest frame
    nframes = [0]

    def spawn(th, kind):
        par = last.get(th)
        labels.append((1, kind, tag[0], 0 if par is None else par + 1))
        tag[0] += 1
        last[th] = nframes[0]
        nframes[0] += 1
        return last[th]

    FRESH = [60, 60, 0, 0, 60, 0] + [0] * 6      # slot, load (latest), CAS, cell, load (latest), CAS; then retries
    STALE = [60] + [0] * 11                       # every queue load reads the oldest message its view allows
    done = {}

    def steps(fr, n, fresh):
        pat = FRESH if fresh else STALE
        k = done.get(fr, 0)
        for c in pat[k:k + n]:
            labels.append((0, fr, c, 0))
        done[fr] = k + n

    if directed is not None:
        kind, pre, rounds = directed
        # thread 0 fills so that the stalled operation has something to dequeue
        if kind == 2:
            steps(spawn(0, 1), RA_FULL_OP, True)
        st = spawn(1, kind)
        steps(st, pre, True)
        if kind == 2:
            steps(spawn(0, 2), RA_FULL_OP, True)
        for _ in range(rounds):
            steps(spawn(0, 1), RA_FULL_OP, True)
        for _ in range(rounds - (1 if kind == 2 else 0)):
            steps(spawn(0, 2), RA_FULL_OP, True)
        steps(st, RA_FULL_OP, True)
        steps(spawn(1, 2 if kind == 1 else 1), RA_FULL_OP, True)
        return labels
    nth = rnd.randint(2, 3)
    stalled = []
    outstanding = 0
    for _ in range(rnd.randint(4, 18)):
        if nframes[0] >= RA_MAX_FRAMES:
            break                 # views are functions in the model: the cost of an execution grows quickly with its length
        th = rnd.randrange(nth)
        if stalled and rnd.random() < 0.25:
            fr = stalled.pop(rnd.randrange(len(stalled)))
            steps(fr, RA_FULL_OP, rnd.random() < 0.5)
            continue
        if any(last.get(th) == f for f in stalled):
            continue              # this thread is inside its stalled operation
        if stalled and rnd.random() < 0.3:
            # the slots go round while an operation is stalled: r sends, then as many receives, by one thread
            r = min(rnd.randint(1, 6), (RA_MAX_FRAMES - nframes[0]) // 2)
            for kind in [1] * r + [2] * r:
                steps(spawn(th, kind), RA_FULL_OP, True)
            continue
        kind = 1 if outstanding <= 0 or (outstanding < 5 and rnd.random() < 0.5) else 2
        outstanding += 1 if kind == 1 else -1
        fr = spawn(th, kind)
        if rnd.random() < 0.25 and len(stalled) < 2:
            steps(fr, rnd.randint(1, 5), True)
            stalled.append(fr)
        else:
            steps(fr, RA_FULL_OP, rnd.random() < 0.7)
    for fr in stalled:
        steps(fr, RA_FULL_OP, True)
    return labels


def ra_directed():
    return [ra_gen_threads(random.Random(1), (kind, pre, rounds)) for kind in (1, 2) for pre in (1, 2, 3, 4, 5) for rounds in (1, 2, 3, 4, 5, 6)]


def ra_run(cases):
    outs = common.run_driver('channel', ['run_ra ' + ' '.join(str(x) for l in c for x in l) for c in cases])
    res = []
    for o in outs:
        v = [int(x) for x in o.split()] if o and not o.startswith('!') else [-1]
        k = v.index(-1) if -1 in v else len(v)
        res.append(v[:k])
    return res


def ra_pretty(labels):
    out = []
    for a, b, c, d in labels:
        if a == 1:
            out.append('spawn F%d = %s with %s' % (sum(1 for x in labels[:labels.index((a, b, c, d))] if x[0] == 1),
                                                   'send(%d)' % c if b == 1 else 'recv()', 'bottom view' if d == 0 else 'the view of F%d' % (d - 1)))
        else:
            out.append('F%d steps, choice %d' % (b, c))
    return out


def ra_search(ctx, n):
    """returns number of bad executions found (each reported through ctx.violation, minimised)"""
    if not ctx.driver('channel', *DRIVER):
        return 0
    rnd = random.Random(ctx.seed * 31337 + 7)
    directed = ra_directed()
    cases = directed + [ra_gen(rnd) if i % 2 == 0 else ra_gen_threads(rnd) for i in range(n)]
    res = ra_run(cases)
    n = len(cases)
    ctx.evaluations += n
    found = {}
    for c, r in zip(cases, res):
        for b in r:
            if b != 0 and (b not in found or len(c) < len(found[b])):
                found[b] = c
    for b, c in sorted(found.items()):
        # greedy minimisation
        changed = True
        while changed:
            changed = False
            for i in range(len(c)):
                d = c[:i] + c[i + 1:]
                if d and b in ra_run([d])[0]:
                    c, changed = d, True
                    break
        ctx.violation({'monitor': 'view-semantics', 'state': BADNAME.get(b, b)},
                      'the view semantics with the orderings extracted from the source reaches %s' % BADNAME.get(b, b),
                      {'ra_labels': c, 'execution': ra_pretty(c), 'side': 'model',
                       'note': 'weak-memory execution of coq/channel/ModelRA.v (label = [0 frame choice _] step | [1 kind value parent+1] spawn)'})
    ctx.coverage['view_semantics_search'] = {'executions': n, 'bad': len(found)}
    return len(found)


# ------------------------------------------------------------------------------------------
# nested operations at every INSTRUCTION boundary (harness/src/bin/p_nested.rs) against the
# outcomes of the SC model over every model-step boundary.  Independent of the hook points.
NESTED_KINDS = ('outcome', 'drops', 'panic', 'hang')


def nested_model_outcomes(configs):
    """allowed (outer ret, inner ret, drained values) per (outer, inner, fill) from the model"""
    scen, owner = [], []
    for (o, i, fill) in configs:
        for k in range(0, 9):
            scen.append(build('nested', fill, [o, i], [(0, 0)] * k + [(1, 0)] * 12 + [(0, 0)] * 12))
            owner.append((o, i, fill))
    res = run_model(scen)
    allowed = {}
    for cfg, s, r in zip(owner, scen, res):
        rets, mainrets = {0: None, 1: None}, []
        for l in r['trace']:
            if l[1] == 23:
                if l[0] == -1:
                    mainrets.append(l[5])
                else:
                    rets[l[0]] = l[5]
        ok = r['finished'] == [1, 1] and not any(r['panicked'])
        out = (rets[0], rets[1], tuple(x for x in mainrets[cfg[2]:] if x != 0)) if ok else ('model-incomplete',)
        allowed.setdefault(cfg, set()).add(out)
    return allowed


def nested_run_one(cfg, kstart=1, timeout=45):
    o, i, fill = cfg
    rc, out, _ = common.sh([common.bin_path('p_nested'), o, i, str(fill), str(kstart)], timeout=timeout)
    rows, begun, panic, done = [], None, None, False
    for l in out.split('\n'):
        p = l.split()
        if not p:
            continue
        if p[0] == 'B':
            begun = int(p[1])
        elif p[0] == 'K':
            k, reached = int(p[1]), int(p[2])
            oi, ii, di, ci = p.index('O'), p.index('I'), p.index('D'), p.index('C')
            rows.append({'k': k, 'reached': reached, 'outcome': (int(p[oi + 1]), int(p[ii + 1]), tuple(int(x) for x in p[di + 1:ci])),
                         'created': int(p[ci + 1]), 'once': int(p[ci + 2]), 'never': int(p[ci + 3]), 'twice': int(p[ci + 4])})
            if not reached:
                done = True
        elif p[0] == 'P':
            panic = {'k': int(p[1]), 'in_handler': int(p[2]), 'message': ' '.join(p[3:])}
    return {'cfg': cfg, 'rows': rows, 'begun': begun, 'panic': panic, 'done': done, 'rc': rc, 'tail': out[-300:]}


def nested_sweep(ctx, want):
    """want: the kinds of failure that are violations of the calling property"""
    from concurrent.futures import ThreadPoolExecutor
    names = {'s': 'send', 'r': 'recv'}
    configs = [(o, i, fill) for o in 'sr' for i in 'sr' for fill in range(0, SLOTS + 1)]
    if not ctx.driver('channel', *DRIVER):
        return
    allowed = nested_model_outcomes(configs)
    with ThreadPoolExecutor(max_workers=12) as ex:
        results = list(ex.map(nested_run_one, configs))
    total, hits, seen_out, incomplete = 0, {}, {}, []
    for res in results:
        o, i, fill = cfg = res['cfg']
        what0 = '%s() interrupted by a handler running %s(), channel holding %d value(s)' % (names[o], names[i], fill)

        def report(kind, k, what, extra=None):
            hits[kind] = hits.get(kind, 0) + 1
            if kind in want and hits[kind] <= 3:
                case = {'nested': {'outer': o, 'inner': i, 'fill': fill, 'k': k}}
                case.update(extra or {})
                ctx.violation({'monitor': 'nested-' + kind, 'outer': o, 'inner': i, 'fill': fill, 'k': k}, what, case)
        for row in res['rows']:
            total += 1
            ctx.evaluations += 1
            seen_out.setdefault(cfg, set()).add(row['outcome'])
            if row['outcome'] not in allowed[cfg]:
                report('outcome', row['k'], '%s after %d instructions: outer returned %d, inner returned %d, drained %s - not an outcome of the model at any '
                       'step boundary (allowed: %s)' % (what0, row['k'], row['outcome'][0], row['outcome'][1], list(row['outcome'][2]),
                                                       sorted(allowed[cfg])), {'observed': row['outcome'], 'allowed': sorted(allowed[cfg])})
            if row['never'] or row['twice'] or row['once'] != row['created']:
                report('drops', row['k'], '%s after %d instructions: of %d payloads %d were never dropped and %d dropped more than once'
                       % (what0, row['k'], row['created'], row['never'], row['twice']))
        if res['panic']:
            pk = res['panic']
            report('panic', pk['k'], '%s after %d instructions: %s panicked: %s' % (what0, pk['k'], 'the inner operation' if pk['in_handler']
                                                                                  else 'the outer operation (or the drain after it)', pk['message']))
        elif not res['done'] and nested_run_one(cfg, kstart=max(1, res['begun'] or 1), timeout=90)['done']:
            # the process was cut off by its time limit but the same boundaries run through when tried again: a starved machine
            hits['unconfirmed-stall'] = hits.get('unconfirmed-stall', 0) + 1
            res['done'] = True
        elif not res['done']:
            if res['rc'] == -9 or res['rc'] is None or res['rc'] == 124 or 'timeout' in str(res['rc']):
                report('hang', res['begun'], '%s after %d instructions: the operation did not return (process killed after the time limit)'
                       % (what0, res['begun'] or 0))
            else:
                report('hang', res['begun'], '%s after %d instructions: the process ended abnormally (rc %s): %s' % (what0, res['begun'] or 0, res['rc'], res['tail']))
        if res['panic'] or not res['done']:
            incomplete.append(what0)
    missing = {('%s/%s/%d' % c): sorted(allowed[c] - seen_out.get(c, set())) for c in configs if allowed[c] - seen_out.get(c, set())}
    ctx.correspondence('nested sweep: every outcome of an operation nested at an instruction boundary (24 configurations) is an outcome of the SC model '
                       'at a step boundary', not hits.get('outcome') and not incomplete,
                       {'hits': hits, 'incomplete': incomplete[:3]})
    ctx.coverage['nested_instruction_sweep'] = {'configurations': len(configs), 'experiments': total, 'failures': hits,
                                                'model_outcomes_not_observed': missing,
                                                'outcomes_per_configuration': {('%s/%s/%d' % c): len(seen_out.get(c, ())) for c in configs}}
    ctx.traces += total - sum(hits.values())


# ------------------------------------------------------------------------------------------
# two levels of nesting at every PAIR of instruction boundaries (thorough tier): p_nested2
def nested2_model_outcomes(configs):
    scen, owner = [], []
    for (o, m, i, fill) in configs:
        for k1 in range(0, 9):
            for k2 in range(0, 9):
                scen.append(build('nested2', fill, [o, m, i], [(0, 0)] * k1 + [(1, 0)] * k2 + [(2, 0)] * 12 + [(1, 0)] * 12 + [(0, 0)] * 12))
                owner.append((o, m, i, fill))
    res = run_model(scen)
    allowed = {}
    for cfg, s, r in zip(owner, scen, res):
        rets, mainrets = {0: None, 1: None, 2: None}, []
        for l in r['trace']:
            if l[1] == 23:
                if l[0] == -1:
                    mainrets.append(l[5])
                else:
                    rets[l[0]] = l[5]
        ok = r['finished'] == [1, 1, 1] and not any(r['panicked'])
        out = (rets[0], rets[1], rets[2], tuple(x for x in mainrets[cfg[3]:] if x != 0)) if ok else ('model-incomplete',)
        allowed.setdefault(cfg, set()).add(out)
    return allowed


def nested2_run_one(cfg, timeout=900):
    o, m, i, fill = cfg
    rc, out, _ = common.sh([common.bin_path('p_nested2'), o, m, i, str(fill)], timeout=timeout)
    seen, bad, n, end = {}, [], 0, False
    for l in out.split('\n'):
        p = l.split()
        if not p:
            continue
        if p[0] == 'K':
            n += 1
            oi, mi, ii, di, ci = p.index('O'), p.index('M'), p.index('I'), p.index('D'), p.index('C')
            outc = (int(p[oi + 1]), int(p[mi + 1]), int(p[ii + 1]), tuple(int(x) for x in p[di + 1:ci]))
            if outc not in seen:
                seen[outc] = (int(p[1]), int(p[2]))
            created, once, never, twice = (int(x) for x in p[ci + 1:ci + 5])
            if never or twice or once != created:
                bad.append(('drops', int(p[1]), int(p[2]), 'of %d payloads %d were never dropped and %d dropped more than once' % (created, never, twice)))
        elif p[0] == 'P':
            bad.append(('panic', int(p[1]), int(p[2]), ' '.join(p[3:])))
        elif p[0] == 'X':
            bad.append(('hang' if 'signal 14' in l else 'panic', int(p[1]), int(p[2]), 'the process ended abnormally: ' + ' '.join(p[3:])))
        elif p[0] == 'E':
            end = True
    return {'cfg': cfg, 'seen': seen, 'bad': bad, 'n': n, 'end': end, 'rc': rc, 'tail': out[-200:]}


def nested2_sweep(ctx, want):
    from concurrent.futures import ThreadPoolExecutor
    names = {'s': 'send', 'r': 'recv'}
    configs = [(o, m, i, fill) for o in 'sr' for m in 'sr' for i in 'sr' for fill in range(0, SLOTS + 1)]
    if not ctx.driver('channel', *DRIVER):
        return
    allowed = nested2_model_outcomes(configs)
    with ThreadPoolExecutor(max_workers=12) as ex:
        results = list(ex.map(nested2_run_one, configs))
    hits, total, incomplete = {}, 0, []
    for res in results:
        o, m, i, fill = cfg = res['cfg']
        what0 = '%s() interrupted by %s() interrupted by %s(), channel holding %d value(s)' % (names[o], names[m], names[i], fill)
        total += res['n']
        ctx.evaluations += res['n']
        if not res['end']:
            incomplete.append(what0 + ': ' + res['tail'])
        for outc, (k1, k2) in res['seen'].items():
            if outc not in allowed[cfg]:
                hits['outcome'] = hits.get('outcome', 0) + 1
                if 'outcome' in want and hits['outcome'] <= 3:
                    ctx.violation({'monitor': 'nested2-outcome', 'cfg': list(cfg), 'k1': k1, 'k2': k2},
                                  '%s, after %d / %d instructions: results %s, drained %s - not an outcome of the model at any pair of step boundaries'
                                  % (what0, k1, k2, list(outc[:3]), list(outc[3])), {'nested2': {'cfg': list(cfg), 'k1': k1, 'k2': k2}, 'observed': outc})
        for kind, k1, k2, text in res['bad']:
            hits[kind] = hits.get(kind, 0) + 1
            if kind in want and hits[kind] <= 3:
                ctx.violation({'monitor': 'nested2-' + kind, 'cfg': list(cfg), 'k1': k1, 'k2': k2}, '%s, after %d / %d instructions: %s' % (what0, k1, k2, text),
                              {'nested2': {'cfg': list(cfg), 'k1': k1, 'k2': k2}})
    ctx.correspondence('two-level nested sweep: every outcome at a pair of instruction boundaries (48 configurations) is an outcome of the SC model',
                       not hits.get('outcome') and not incomplete, {'hits': hits, 'incomplete': incomplete[:3]})
    ctx.coverage['nested2_instruction_sweep'] = {'configurations': len(configs), 'boundary_pairs': total, 'failures': hits,
                                                 'distinct_outcomes': sum(len(r['seen']) for r in results)}
    ctx.traces += total


def nested_replay(c):
    n = c['nested']
    cfg = (n['outer'], n['inner'], n['fill'])
    allowed = nested_model_outcomes([cfg])[cfg]
    res = nested_run_one(cfg, kstart=n['k'] or 1, timeout=30)
    row = res['rows'][0] if res['rows'] else None
    print('configuration', cfg, 'k =', n['k'])
    print('implementation:', row if row else res['tail'])
    print('model outcomes:', sorted(allowed))
    bad = False
    if res['panic'] and res['panic']['k'] == n['k']:
        print('REPRODUCED: panic', res['panic']['message']); bad = True
    if row is None and not res['panic']:
        print('REPRODUCED: the operation did not return'); bad = True
    if row and row['outcome'] not in allowed:
        print('REPRODUCED: outcome not allowed by the model'); bad = True
    if row and (row['never'] or row['twice']):
        print('REPRODUCED: payload drop accounting'); bad = True
    return 1 if bad else 0


def replay_case(ctx, path, monitors):
    import json
    case = json.load(open(path))
    c = case.get('case', {})
    if c.get('ra_labels'):
        ctx.translate(['channel'])
        if not ctx.driver('channel', *DRIVER):
            return 1
        labels = [tuple(l) for l in c['ra_labels']]
        r = ra_run([labels])[0]
        for l in ra_pretty(labels):
            print(l)
        bad = [b for b in r if b]
        for b in bad:
            print('REPRODUCED (model execution):', BADNAME.get(b, b))
        return 1 if bad else 0
    if c.get('nested2'):
        ctx.harness(['p_nested2'])
        ctx.translate(['channel'])
        if not ctx.driver('channel', *DRIVER):
            return 1
        n = c['nested2']
        cfg = tuple(n['cfg'][:3]) + (int(n['cfg'][3]),)
        allowed = nested2_model_outcomes([cfg])[cfg]
        res = nested2_run_one(cfg)
        bad = [(k, k1, k2, t) for k, k1, k2, t in res['bad'] if (k1, k2) == (n['k1'], n['k2'])]
        wrong = [(o, w) for o, w in res['seen'].items() if o not in allowed]
        print('configuration', cfg, 'boundary pairs', res['n'], 'model outcomes', sorted(allowed))
        for b in bad:
            print('REPRODUCED:', b)
        for o, w in wrong:
            print('REPRODUCED: outcome', o, 'first at', w)
        return 1 if bad or wrong else 0
    if c.get('nested'):
        ctx.harness(['p_nested'])
        ctx.translate(['channel'])
        if not ctx.driver('channel', *DRIVER):
            return 1
        return nested_replay(c)
    if c.get('history'):
        ctx.harness(['ls_channel'])
        h = [tuple(o) for o in c['history']]
        exe = common.bin_path('ls_channel')
        rc, out, _ = common.sh([exe], input=('H %d %s\n' % (len(h), ' '.join('%d %d' % o for o in h))).encode(), timeout=120)
        exp, _, _ = spec_history(h)
        print('implementation:', out.strip()); print('bounded FIFO    : R', ' '.join(str(x) for x in exp))
        got = [int(x) for x in out.split('|')[0][1:].split()] if out.startswith('R') else None
        if got != exp:
            print('REPRODUCED: results differ from the bounded FIFO of capacity 5')
            return 1
        return 0
    sc = c.get('scenario')
    if not sc:
        print('replay file names no concrete input:', json.dumps(case.get('broken'), indent=1)[:2000])
        return 1
    ctx.harness(['ls_channel'])
    s = from_json(sc)
    r = run_impl([s])[0]
    for l in r['trace']:
        print(pretty(l))
    v = [x for mon in monitors for x in mon(s, r)]
    for kind, idx, what in v:
        print('REPRODUCED:', what)
    return 1 if v or 'error' in r else 0
