"""Lock-step correspondence for the concurrent registry (DESIGN 4.2): scenario + schedule
generators, runner for implementation (harness/src/bin/ls_registry.rs) and extracted model
(coq/registry/Run.v), trace comparison, and property monitors evaluated on the
implementation's trace.  Shared by C01, C02, C03, C04, C18."""
import itertools, random
import common

SIGS = [10, 12]   # SIGUSR1, SIGUSR2

OPNAME = {0: 'load', 2: 'swap', 3: 'fetch_add', 4: 'fetch_sub', 6: 'lock', 7: 'unlock', 8: 'yield', 9: 'spin', 11: 'free',
          12: 'sigaction', 20: 'start', 21: 'callprev', 22: 'run', 23: 'ret', 24: 'blocked', 98: 'panic', 99: 'abort'}
LOCNAME = {0: '-', 1: 'data.ptr', 2: 'data.gen', 3: 'data.lock[0]', 4: 'data.lock[1]', 5: 'data.mutex',
           11: 'fb.ptr', 12: 'fb.gen', 13: 'fb.lock[0]', 14: 'fb.lock[1]', 15: 'fb.mutex', 20: 'os'}


class Scenario:
    def __init__(self, name, disp, setup, acts, sched):
        self.name, self.disp, self.setup, self.acts, self.sched = name, disp, setup, acts, sched

    def ints(self):
        v = [len(self.disp)] + [x for d in self.disp for x in d]
        v += [len(self.setup)] + [x for o in self.setup for x in o]
        v += [len(self.acts)] + [x for o in self.acts for x in o]
        v += [len(self.sched)] + list(self.sched)
        return v

    def line(self):
        return ' '.join(str(x) for x in self.ints())

    def json(self):
        return {'system': 'registry', 'name': self.name, 'disp': self.disp, 'setup': self.setup, 'acts': self.acts, 'schedule': self.sched}


def from_json(j):
    return Scenario(j.get('name', 'replay'), [tuple(x) for x in j['disp']], [tuple(x) for x in j['setup']], [tuple(x) for x in j['acts']], list(j['schedule']))


# op kinds: 1 deliver(sig), 2 register(sig, tag), 3 unregister(index of set-up registration), 4 unregister_signal(sig)
def base_scenarios():
    s1, s2 = SIGS
    out = []
    for prev in (0, 3):
        out.append(('unreg_vs_deliver/p%d' % prev, [(s1, prev)], [(2, s1, 7, )], [(1, s1, 0), (3, 0, 0)]))
        out.append(('unreg_vs_2deliver/p%d' % prev, [(s1, prev)], [(2, s1, 7), (2, s1, 8)], [(1, s1, 0), (3, 0, 0), (1, s1, 0)]))
    out.append(('unregsig_vs_deliver', [(s1, 0)], [(2, s1, 7), (2, s1, 8), (2, s1, 9)], [(1, s1, 0), (4, s1, 0)]))
    for prev in (0, 1, 2, 3):
        out.append(('first_reg_vs_deliver/p%d' % prev, [(s1, prev)], [], [(2, s1, 5), (1, s1, 0)]))
    out.append(('first_reg_2sig_vs_deliver', [(s1, 3), (s2, 2)], [], [(2, s1, 5), (2, s2, 6), (1, s1, 0)]))
    out.append(('second_reg_vs_deliver', [(s1, 2)], [(2, s1, 4)], [(2, s1, 5), (1, s1, 0)]))
    # the signal's only action was removed earlier (the library stays its handler), another signal is taken over first,
    # then a new registration of the first signal: its pre-existing handler is still chained, once, on every delivery
    for prev in (2, 3):
        out.append(('second_reg_after_empty/p%d' % prev, [(s1, prev), (s2, 0)], [(2, s1, 4), (3, 0, 0)], [(2, s2, 6), (2, s1, 5), (1, s1, 0)]))
    out.append(('reg_unreg_deliver', [(s1, 0)], [(2, s1, 1), (2, s1, 2)], [(2, s1, 3), (3, 1, 0), (1, s1, 0)]))
    out.append(('three_mutators', [(s1, 0), (s2, 0)], [(2, s1, 1)], [(2, s2, 2), (3, 0, 0), (2, s1, 3), (1, s1, 0)]))
    # three calls that only write the data half-lock (no first registration: the delivery's fallback guard would hold those up)
    out.append(('three_data_writers', [(s1, 0)], [(2, s1, 1), (2, s1, 2)], [(3, 0, 0), (2, s1, 3), (3, 1, 0), (1, s1, 0)]))
    out.append(('stale_unregister', [(s1, 0)], [(2, s1, 1), (3, 0, 0), (2, s1, 2), (3, 0, 0)], [(1, s1, 0), (2, s1, 3)]))
    out.append(('sticky', [(s1, 0)], [(2, s1, 1)], [(1, s1, 0), (3, 0, 0), (1, s1, 0)]))
    # unregister_signal racing with a registration of the same signal, then a delivery: the registration that returned must run
    out.append(('unregsig_vs_register', [(s1, 0)], [(2, s1, 7)], [(4, s1, 0), (2, s1, 8), (1, s1, 0)]))
    # ... and with a registration of ANOTHER signal (a whole-registry copy taken too early loses it)
    out.append(('unregsig_vs_register_other', [(s1, 0), (s2, 0)], [(2, s1, 7)], [(4, s1, 0), (2, s2, 8), (1, s2, 0)]))
    # removing the OLDEST of three keeps the order of the other two
    out.append(('unreg_first_of_three', [(s1, 0)], [(2, s1, 1), (2, s1, 2), (2, s1, 3)], [(3, 0, 0), (1, s1, 0)]))
    # two removals of different actions overlapping, then a delivery: a removal that returned stays removed (no lost update)
    out.append(('two_unregisters', [(s1, 0)], [(2, s1, 1), (2, s1, 2), (2, s1, 3)], [(3, 0, 0), (3, 1, 0), (1, s1, 0)]))
    out.append(('other_signal', [(s1, 0), (s2, 0)], [(2, s1, 1), (2, s2, 2)], [(1, s1, 0), (3, 1, 0), (1, s2, 0)]))
    return out


def systematic(n_acts, max_len, bound):
    """Preemption-bounded schedules: run activity a for i steps, b for j steps, ... then each
    to completion in order (the drain phase of both sides then has nothing left to do)."""
    scheds = []
    acts = list(range(n_acts))
    if n_acts == 2:
        for first in acts:
            other = 1 - first
            for i in range(0, max_len + 1):
                for j in range(0, max_len + 1, max(1, max_len // bound)):
                    scheds.append([first] * i + [other] * j + [first] * 40 + [other] * 40)
    return scheds


def gen(seed, tier, want=None):
    rnd = random.Random(seed)
    scen = []
    bases = base_scenarios()
    per = 12 if tier == 'quick' else 120
    for name, disp, setup, acts in bases:
        if want and not any(name.startswith(w) for w in want):
            continue
        n = len(acts)
        if n == 2:
            # every split point of one activity against the other run to completion, both orders
            for first in (0, 1):
                other = 1 - first
                for i in range(0, 34):
                    scen.append(Scenario(name, disp, setup, acts, [first] * i + [other] * 60 + [first] * 60))
            # two preemptions
            k = per if tier == 'quick' else 400
            for _ in range(k):
                i, j, l = rnd.randint(0, 20), rnd.randint(1, 25), rnd.randint(0, 20)
                first = rnd.randint(0, 1)
                scen.append(Scenario(name, disp, setup, acts, [first] * i + [1 - first] * j + [first] * l + [1 - first] * 60 + [first] * 60))
        if name == 'sticky':
            # D1 holds the old snapshot; the remover publishes, flips the generation and spins; D2 enters through the NEW
            # generation's slot and stays inside; D1 leaves; now the remover must finish on its own (sticky seen flags)
            for a in range(5, 9):
                for b in range(7, 14):
                    scen.append(Scenario(name, disp, setup, acts, sticky_schedule(a, b)))
        if n == 3:
            # two families of block schedules: P^i Q* P^j R* P*  (P paused twice, Q and R run to completion in between)
            # and P^i Q^j P* R* Q*  (P and Q each paused once), for all role assignments
            imax, jmax, jstep = (18, 10, 2) if tier == "quick" else (24, 16, 1)
            for P, Q, R in itertools.permutations(range(3)):
                for i in range(0, imax + 1):
                    for j in range(0, jmax + 1, jstep):
                        scen.append(Scenario(name, disp, setup, acts, [P] * i + [Q] * 70 + [P] * j + [R] * 70 + [P] * 70))
                        scen.append(Scenario(name, disp, setup, acts, [P] * i + [Q] * j + [P] * 70 + [R] * 70 + [Q] * 70))
                # P paused once, Q runs to completion inside the pause, P finishes, then R
                for i in range(0, 34):
                    scen.append(Scenario(name, disp, setup, acts, [P] * i + [Q] * 70 + [P] * 70 + [R] * 70))
                # late split points of P (the tail of a call: unlock and whatever follows it) against an early pause of Q
                if acts[P][0] != 1 and acts[Q][0] != 1:
                    # (two calls and a delivery: every pause point of the second call against every late split of the first)
                    for i in range(min(imax, 14) + 1, 34):
                        for j in range(0, 22):
                            scen.append(Scenario(name, disp, setup, acts, [P] * i + [Q] * j + [P] * 70 + [R] * 70 + [Q] * 70))
                elif acts[P][0] != 1:
                    for i in range(min(imax, 14) + 1, 34):
                        for j in range(0, jmax + 5, 2):
                            scen.append(Scenario(name, disp, setup, acts, [P] * i + [Q] * j + [P] * 70 + [R] * 70 + [Q] * 70))
        if n == 4:
            # one delivery paused three times, a complete call between the pauses: D^i Q* D^j R* D^k S* D*
            dels = [a for a in range(4) if acts[a][0] == 1]
            for P in dels:
                others = [a for a in range(4) if a != P]
                kmax = 5 if tier == 'quick' else 8
                for Q, R, S in itertools.permutations(others):
                    for i in range(0, kmax + 4):
                        for j in range(0, kmax + 1):
                            for k in range(0, kmax + 1):
                                scen.append(Scenario(name, disp, setup, acts, [P] * i + [Q] * 70 + [P] * j + [R] * 70 + [P] * k + [S] * 70 + [P] * 70))
        for _ in range(per * 2):
            ln = rnd.randint(5, 70)
            # biased random: runs of the same activity of random length
            sched = []
            while len(sched) < ln:
                a = rnd.randrange(n)
                sched += [a] * rnd.randint(1, 6)
            scen.append(Scenario(name, disp, setup, acts, sched))
    return scen


def run_impl(scen, timeout=900):
    exe = common.bin_path('ls_registry')
    # the driver forks one child per scenario; spread the scenarios over several driver processes
    import concurrent.futures
    nproc = max(1, min(12, len(scen) // 200 + 1))
    chunks = [scen[i::nproc] for i in range(nproc)]

    def work(ch):
        rc, out, _ = common.sh([exe], input=('\n'.join(s.line() for s in ch) + '\n').encode(), timeout=timeout)
        return out.split('\n')[:len(ch)] + ['!missing'] * max(0, len(ch) - len(out.split('\n')))
    with concurrent.futures.ThreadPoolExecutor(nproc) as ex:
        outs = list(ex.map(work, chunks))
    lines = [None] * len(scen)
    for c, o in enumerate(outs):
        for j, l in enumerate(o[:len(chunks[c])]):
            lines[c + j * nproc] = l
    lines = [l if l is not None else '!missing' for l in lines]
    res = []
    for i, s in enumerate(scen):
        l = lines[i] if i < len(lines) else '!missing'
        if not l.startswith('T'):
            res.append({'error': l, 'trace': [], 'finished': [], 'stuck': True, 'panicked': []})
            continue
        parts = [p.strip() for p in l.split('|')]
        t = [int(x) for x in parts[0][1:].split()]
        trace = [tuple(t[j:j + 6]) for j in range(0, len(t), 6)]
        fin = [int(x) for x in parts[1][1:].split()]
        pan = [int(x) for x in parts[2][1:].split()]
        st = [int(x) for x in parts[3][1:].split()]
        al = [int(x) for x in parts[4][1:].split()] if len(parts) > 4 else [0, 0]
        res.append({'trace': trace, 'finished': fin, 'panicked': pan, 'stuck': bool(st[0]), 'drain': st[1], 'allocs': al[0], 'frees': al[1]})
    return res


def run_model(scen):
    outs = common.run_driver('registry', ['run_registry ' + s.line() for s in scen])
    res = []
    for l in outs:
        t = [int(x) for x in l.split()] if not l.startswith('!') else [-99]
        if -1 in t:
            k = len(t) - 1 - t[::-1].index(-1)
            ev, fin = t[:k], t[k + 1:]
        else:
            ev, fin = t, []
        res.append({'trace': [tuple(ev[j:j + 6]) for j in range(0, len(ev), 6)], 'finished': fin})
    return res


def pretty(line):
    a, op, loc, arg, res, ok = line
    return 'A%d %s %s arg=%d -> %d%s' % (a, LOCNAME.get(loc, str(loc)), OPNAME.get(op, str(op)), arg, res, '' if ok else ' (failed)')


def first_diff(ti, tm):
    for i in range(max(len(ti), len(tm))):
        a = ti[i] if i < len(ti) else None
        b = tm[i] if i < len(tm) else None
        if a != b:
            return i, a, b
    return None


# ------------------------------------------------------------------------------------------
# monitors on the implementation's trace
def kinds_of(s):
    return [a[0] for a in s.acts]


def mon_c01(s, r):
    """use-after-free, free inside a handler, action run after its removal returned."""
    viol = []
    kinds = kinds_of(s)
    held = {}       # (act, lockbase) -> epoch held
    freed = {0: set(), 10: set()}
    removed_tags = set()
    # tags of set-up registrations by index; unregister(a) removes tag of set-up registration a
    reg_tags = [o[2] for o in s.setup if o[0] == 2]
    reg_sigs = [o[1] for o in s.setup if o[0] == 2]
    pending_ret = {}
    for idx, (a, op, loc, arg, res, ok) in enumerate(r['trace']):
        base = 0 if loc < 10 else 10
        if op == 0 and loc in (1, 11) and kinds[a] == 1:
            held[(a, base)] = res
            if res in freed[base] or res < 0:
                viol.append(('uaf-load', idx, 'delivery A%d loaded an already released snapshot e%d' % (a, res)))
        if op == 4 and kinds[a] == 1:
            held.pop((a, base), None)
        if op == 11:
            if kinds[a] == 1:
                viol.append(('free-in-handler', idx, 'delivery A%d released snapshot e%d' % (a, arg)))
            if arg in freed[base]:
                viol.append(('double-free', idx, 'snapshot e%d released twice' % arg))
            freed[base].add(arg)
            for (b, bb), e in held.items():
                if bb == base and e == arg:
                    viol.append(('uaf', idx, 'A%d released snapshot e%d of %s while delivery A%d holds a guard on it' % (a, arg, 'data' if base == 0 else 'race_fallback', b)))
        if op == 23 and res == 1:
            k, x, _ = s.acts[a]
            if k == 3 and x < len(reg_tags):
                removed_tags.add(reg_tags[x])
            if k == 4:
                for t, sg in zip(reg_tags, reg_sigs):
                    if sg == x:
                        removed_tags.add(t)
        if op == 22 and arg in removed_tags:
            viol.append(('run-after-removal', idx, 'action tag %d ran (delivery A%d) after its removal had returned' % (arg, a)))
    return viol


def mon_c03(s, r, bound_extra=0):
    viol = []
    kinds = kinds_of(s)
    count = {}
    nact = {}
    for idx, (a, op, loc, arg, res, ok) in enumerate(r['trace']):
        if kinds[a] != 1:
            continue
        count[a] = count.get(a, 0) + 1
        if op == 22:
            nact[a] = nact.get(a, 0) + 1
        if op not in (0, 3, 4, 20, 21, 22):
            viol.append(('handler-op', idx, 'delivery A%d performed %s' % (a, OPNAME.get(op, op))))
        if ok == 0:
            viol.append(('handler-wait', idx, 'delivery A%d had a failed/blocked step' % a))
    for a, c in count.items():
        if c > 10 + nact.get(a, 0) + bound_extra:
            viol.append(('handler-steps', -1, 'delivery A%d took %d steps with %d actions' % (a, c, nact.get(a, 0))))
    if r.get('allocs', 0) or r.get('frees', 0):
        viol.append(('handler-heap', -1, 'heap traffic inside a delivery: %d allocations, %d releases' % (r.get('allocs', 0), r.get('frees', 0))))
    for a, k in enumerate(kinds):
        if k == 1 and a < len(r['finished']) and not r['finished'][a]:
            viol.append(('handler-unfinished', -1, 'delivery A%d did not finish' % a))
    return viol


def mon_c04(s, r):
    viol = []
    kinds = kinds_of(s)
    disp = dict(s.disp)
    per = {}
    for idx, (a, op, loc, arg, res, ok) in enumerate(r['trace']):
        if kinds[a] != 1:
            continue
        d = per.setdefault(a, {'start': None, 'prev': [], 'runs_before_prev': 0, 'runs': 0})
        if op == 20:
            d['start'] = res
        if op == 21:
            d['prev'].append((arg, res, d['runs']))
        if op == 22:
            d['runs'] += 1
    for a, d in per.items():
        if a < len(r['finished']) and not r['finished'][a]:
            continue
        sig = s.acts[a][1]
        k = disp.get(sig, 0)
        if d['start'] in (1, 2):
            if k in (2, 3):
                conv = 1 if k == 3 else 0
                if len(d['prev']) != 1:
                    viol.append(('chain-count', -1, 'delivery A%d of signal %d called the previous handler %d times' % (a, sig, len(d['prev']))))
                else:
                    sg, c, runs = d['prev'][0]
                    if sg != sig or c != conv:
                        viol.append(('chain-args', -1, 'delivery A%d: previous handler called with signal %d convention %d (expected %d, %d)' % (a, sg, c, sig, conv)))
                    if runs != 0:
                        viol.append(('chain-order', -1, 'delivery A%d ran %d actions before the previous handler' % (a, runs)))
            elif d['prev']:
                viol.append(('chain-spurious', -1, 'delivery A%d called a previous handler although the disposition was default/ignore' % a))
    return viol


def reference_states(s, r):
    """Abstract registry contents per signal after each publish (swap of data.ptr), from the
    operations' meaning; returns list of (trace index, {sig: [tags]}) starting with index -1."""
    state = {}
    reg_list = []   # (sig, tag) of successful set-up registrations
    for o in s.setup:
        if o[0] == 2:
            state.setdefault(o[1], []).append(o[2]); reg_list.append((o[1], o[2]))
        elif o[0] == 3 and o[1] < len(reg_list):
            sg, t = reg_list[o[1]]
            if t in state.get(sg, []):
                state[sg].remove(t)
        elif o[0] == 4:
            state[o[1]] = []
    states = [(-1, {k: list(v) for k, v in state.items()})]
    for idx, (a, op, loc, arg, res, ok) in enumerate(r['trace']):
        if op == 2 and loc == 1:
            k, x, y = s.acts[a]
            if k == 2:
                state.setdefault(x, []).append(y)
            elif k == 3 and x < len(reg_list):
                sg, t = reg_list[x]
                if t in state.get(sg, []):
                    state[sg].remove(t)
            elif k == 4:
                state[x] = []
            states.append((idx, {k2: list(v) for k2, v in state.items()}))
    return states


def mon_c02(s, r):
    viol = []
    kinds = kinds_of(s)
    states = reference_states(s, r)
    begin, end, runs = {}, {}, {}
    for idx, (a, op, loc, arg, res, ok) in enumerate(r['trace']):
        if kinds[a] != 1:
            continue
        if op == 20:
            begin[a] = idx
        end[a] = idx
        if op == 22:
            runs.setdefault(a, []).append(arg)
    for a in begin:
        if a < len(r['finished']) and not r['finished'][a]:
            continue
        if r['trace'][begin[a]][4] != 1:
            continue   # library handler was not the disposition
        sig = s.acts[a][1]
        got = runs.get(a, [])
        # registry states current at some instant within [begin, end]
        cands = []
        for i, (pidx, st) in enumerate(states):
            nxt = states[i + 1][0] if i + 1 < len(states) else 10 ** 9
            if pidx <= end[a] and nxt >= begin[a]:
                cands.append(st.get(sig, []))
        if got not in cands:
            viol.append(('snapshot', -1, 'delivery A%d of signal %d ran %s, which is the action list of no registry state current during it (%s)' % (a, sig, got, cands)))
    return viol


def sticky_schedule(a, b):
    return [0] * a + [1] * b + [2] * 7 + [0] * 8 + [1] * 60 + [2] * 20


STICKY_SCHEDULES = {tuple(sticky_schedule(a, b)) for a in range(5, 9) for b in range(7, 14)}


def mon_c18(s, r):
    viol = []
    # (only on the directed schedules of that shape: in general a remover rightly waits for a delivery that entered the
    # old generation's slot after the publication, so "60 steps after the last old-snapshot holder left" is no bound
    # for arbitrary schedules - a random schedule of the thorough tier once matched a looser guard here: false alarm, corrected)
    if s.name == 'sticky' and tuple(s.sched) in STICKY_SCHEDULES:
        # the remover (A1) got 60 steps in a row after D1 (A0) had left while D2 (A2) stays inside the new slot
        tr = r['trace']
        d1_last = max([i for i, l in enumerate(tr) if l[0] == 0] or [-1])
        ret = [i for i, l in enumerate(tr) if l[0] == 1 and l[1] == 23]
        d2_after = [i for i, l in enumerate(tr) if l[0] == 2 and i > d1_last]
        d2_inside = any(l[0] == 2 and l[1] == 0 and l[2] == 1 for l in tr[:d1_last + 1]) and not any(l[0] == 2 and l[1] == 4 for l in tr[:d1_last + 1])
        d1_held_old = any(l[0] == 0 and l[1] == 0 and l[2] == 1 and l[4] == 0 for l in tr) and any(l[0] == 1 and l[1] == 2 and l[2] == 1 for l in tr[:d1_last])
        slot = lambda act: next((l[2] for l in tr if l[0] == act and l[2] in (3, 4)), None)
        other_slot = slot(0) is not None and slot(2) is not None and slot(0) != slot(2)    # D2 really came in through the other generation's slot
        if d2_inside and d1_held_old and other_slot and ret and d2_after and ret[0] > d2_after[0]:
            viol.append(('spins-on-new-generation-reader', ret[0], 'the remover A1 did not finish within 60 of its own steps after the only delivery that held the OLD '
                         'snapshot had returned; it kept spinning while a delivery that entered after the generation flip was inside (seen flags not sticky)'))
    if r.get('stuck'):
        viol.append(('stuck', -1, 'activities can make no progress: finished=%s' % r['finished']))
    for a, f in enumerate(r['finished']):
        if not f:
            viol.append(('unfinished', -1, 'activity A%d never returned' % a))
    return viol


def lockstep(ctx, monitors, want=None, corr_name='lock-step: registry model trace = implementation trace (same schedules)'):
    """Run the generated scenarios on both sides, compare traces line by line, evaluate the
    property monitors on the implementation's traces.  Returns (scenarios, impl results)."""
    scen = gen(ctx.seed, ctx.tier, want)
    impl = run_impl(scen)
    ok_driver = ctx.driver('registry', ['run_registry'], ['registry/Run.vo'])
    model = run_model(scen) if ok_driver else None
    diffs = []
    seen = set()
    switches = 0
    for i, (s, r) in enumerate(zip(scen, impl)):
        ctx.evaluations += 1
        if 'error' in r:
            diffs.append({'scenario': s.json(), 'error': r['error']})
            continue
        key = (s.name, tuple(r['trace']))
        if key not in seen and len(set(a for a, *_ in r['trace'])) > 1:
            seen.add(key)
            ctx.distinct.add(hash(key))
        switches += sum(1 for a, b in zip(r['trace'], r['trace'][1:]) if a[0] != b[0])
        if model is not None:
            d = first_diff(r['trace'], model[i]['trace'])
            if d is None and r['finished'] != model[i]['finished']:
                d = (-1, r['finished'], model[i]['finished'])
            if d is not None:
                idx, a, b = d
                diffs.append({'scenario': s.json(), 'step': idx, 'impl': pretty(a) if isinstance(a, tuple) else a,
                              'model': pretty(b) if isinstance(b, tuple) else b})
            else:
                ctx.traces += 1
        for mon in monitors:
            for kind, idx, what in mon(s, r):
                ctx.violation({'monitor': kind, 'scenario': s.name, 'disp': s.disp, 'setup': s.setup, 'acts': s.acts, 'schedule': s.sched},
                              what, {'scenario': s.json(), 'trace': [pretty(l) for l in r['trace']], 'at': idx})
    if model is not None:
        ctx.correspondence(corr_name, not diffs, diffs[:3])
    ctx.coverage['input_distribution'] = {
        'scenarios': len(scen), 'kinds': sorted(set(s.name for s in scen)),
        'distinct_interleaved_traces': len(seen), 'context_switches_total': switches,
        'mean_trace_len': round(sum(len(r['trace']) for r in impl) / max(1, len(impl)), 1)}
    if not ctx.samples and scen:
        j = min(40, len(scen) - 1)
        ctx.samples = [{'scenario': scen[j].json(), 'impl_trace': [pretty(l) for l in impl[j]['trace']][:60]}]
    return scen, impl


# ------------------------------------------------------------------------------------------
# a real delivery on the mutating thread at every INSTRUCTION boundary of register / unregister /
# unregister_signal (harness/src/bin/p_nested_reg.rs; fork per boundary; hook-independent)
REG_CONFIGS = ([('r', str(n), p) for n in (0, 1, 2, 3) for p in 'ihs'] + [('u0', str(n), p) for n in (1, 2) for p in 'ihs'] +
               [('u1', '2', p) for p in 'ihs'] + [('x', str(n), p) for n in (1, 2) for p in 'ihs'] +
               # previous handlers installed with SA_RESETHAND|SA_NODEFER|SA_ONSTACK and a mask
               # (only where the library owns the signal already: a delivery before the take-over would consume a one-shot handler)
               [('r', '1', 'H'), ('r', '1', 'S'), ('u0', '1', 'H'), ('x', '2', 'S')])
REG_NAMES = {'r': 'register', 'u0': 'unregister(first action)', 'u1': 'unregister(second action)', 'x': 'unregister_signal',
             'i': 'ignored before', 'h': 'a plain handler before', 's': 'a SA_SIGINFO handler before',
             'H': 'a plain SA_RESETHAND|SA_NODEFER|SA_ONSTACK handler before', 'S': 'a SA_SIGINFO|SA_RESETHAND|SA_NODEFER|SA_ONSTACK handler before'}
REG_KINDS = {'C01': ('AFTER', 'DROP', 'CRASH'), 'C02': ('SNAPSHOT', 'AFTER', 'OTHER', 'CRASH'), 'C03': ('BLOCKED', 'CRASH'), 'C04': ('CHAIN', 'CRASH'), 'C18': ('BLOCKED',)}


def reg_one(cfg, konly=None, timeout=240):
    cmd = [common.bin_path('p_nested_reg')] + list(cfg) + ([str(konly)] if konly else [])
    rc, out, _ = common.sh(cmd, timeout=timeout)
    rows, end = [], None
    for l in out.split('\n'):
        p = l.split(' ', 2)
        if p[0] == 'K' and len(p) == 3:
            verdict, _, rest = p[2].partition(' | ')
            kinds = sorted(set(part.split(' ', 1)[0] for part in verdict[4:].split('; '))) if verdict.startswith('BAD') else []
            rows.append({'k': int(p[1]), 'kinds': kinds, 'verdict': verdict, 'observed': rest})
        elif p[0] == 'X' and len(p) == 3:
            rows.append({'k': int(p[1]), 'kinds': ['BLOCKED' if p[2].strip() == 'signal 14' else 'CRASH'], 'observed': '',
                         'verdict': 'the delivery (or the call after it) never came back: the handler waited for something the interrupted call holds (killed by the 3 s alarm)'
                         if p[2].strip() == 'signal 14' else 'the process died: ' + p[2]})
        elif p[0] == 'P':
            rows.append({'k': int(p[1]) if len(p) > 1 and p[1].isdigit() else 0, 'kinds': ['CRASH'], 'verdict': 'panic: ' + l, 'observed': ''})
        elif p[0] == 'E':
            end = int(p[1])
    return {'cfg': cfg, 'rows': rows, 'end': end, 'rc': rc, 'tail': out[-300:]}


def reg_sweep(ctx, want):
    from concurrent.futures import ThreadPoolExecutor
    if not ctx.harness(['p_nested_reg']):
        return
    with ThreadPoolExecutor(max_workers=12) as ex:
        results = list(ex.map(reg_one, REG_CONFIGS))
    results = [reg_one(r['cfg'], timeout=600) if (r['end'] is None and not any(x['kinds'] for x in r['rows'])) else r for r in results]
    hits, total, incomplete, per, outcomes = {}, 0, [], {}, {}
    for res in results:
        m, n, pv = cfg = res['cfg']
        name = '%s with %s action(s) registered, the signal %s' % (REG_NAMES[m], n, REG_NAMES[pv])
        per['/'.join(cfg)] = res['end']
        if res['end'] is None:
            incomplete.append('%s: %s' % (name, res['tail']))
        confirmed = 0
        for row in res['rows']:
            total += 1
            ctx.evaluations += 1
            outcomes.setdefault('/'.join(cfg), set()).add(row['observed'].split(' | ')[0])
            if row['kinds'] == ['BLOCKED']:
                confirmed += 1
                if confirmed <= 3:
                    again = reg_one(cfg, konly=row['k'], timeout=60)
                    if not any(r2['k'] == row['k'] and r2['kinds'] == ['BLOCKED'] for r2 in again['rows']):
                        hits['unconfirmed-stall'] = hits.get('unconfirmed-stall', 0) + 1
                        continue
            for kind in row['kinds']:
                hits[kind] = hits.get(kind, 0) + 1
                if kind in want and hits[kind] <= 3:
                    ctx.violation({'monitor': 'regsweep-' + kind, 'mutation': m, 'actions': n, 'prev': pv, 'k': row['k']},
                                  '%s: SIGUSR1 raised on the calling thread after %d instructions of the call: %s [%s]' % (name, row['k'], row['verdict'], row['observed']),
                                  {'reg_sweep': {'mutation': m, 'actions': n, 'prev': pv, 'k': row['k']}, 'observed': row})
    ctx.correspondence('instruction-level registry sweep ran to the end in all %d configurations' % len(REG_CONFIGS), not incomplete, incomplete[:3])
    ctx.coverage['instruction_registry_sweep'] = {'configurations': len(REG_CONFIGS), 'boundaries': total, 'complaints': hits, 'boundaries_per_configuration': per,
                                                  'configurations_where_both_lists_were_seen': sum(1 for v in outcomes.values() if len(v) >= 2)}
    ctx.coverage['rule_registry_sweep'] = ('register / unregister / unregister_signal single-stepped (trap flag), a REAL SIGUSR1 raised on the same thread at every instruction '
                                           'boundary (fork per boundary), 0-2 actions registered before, the signal ignored / handled by a plain / by a SA_SIGINFO handler before the library '
                                           'took it over: the nested delivery runs the list from before or from after the call, a later one the list after it, the previous handler exactly '
                                           'once first with its own convention, captures dropped exactly when removed and never while running, nothing blocks')
    ctx.traces += total - sum(hits.values())


def reg_replay(ctx, c, want):
    n = c['reg_sweep']
    ctx.harness(['p_nested_reg'])
    res = reg_one((n['mutation'], str(n['actions']), n['prev']), konly=n['k'], timeout=60)
    bad = False
    for row in res['rows']:
        print('k=%d %s | %s' % (row['k'], row['verdict'], row['observed']))
        if row['k'] == n['k'] and any(k in want for k in row['kinds']):
            print('REPRODUCED:', row['verdict']); bad = True
    return 1 if bad else 0
