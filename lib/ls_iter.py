"""Lock-step correspondence for the signal iterators (DESIGN 4.2, 5.9-5.11): scenario + schedule
generators, runner for the implementation (harness/src/bin/ls_iter.rs) and the extracted model
(coq/iter/Run.v), trace comparison, and the property monitors of C09, C10, C11 evaluated on the
implementation's traces.

The real run contains the registry's own half-lock operations (a delivery is simulated by calling
the dispatcher); the driver filters the trace to the iterator-level locations.  The model is then
run under the schedule INDUCED by the implementation's trace (the sequence of activities that
performed an iterator-level synchronisation operation), and must produce the same operations with
the same results, the same call/return notes per activity and the same finished flags."""
import json, random
import common

S1, S2 = 10, 12   # SIGUSR1, SIGUSR2
MAXSIG = 128
STEP_OPS = {0, 1, 2, 5, 6, 7, 15, 24, 36}
NOTE_OPS = {30, 31, 32, 33, 34}
OPNAME = {0: 'load', 1: 'store', 2: 'publish', 5: 'cas', 6: 'lock', 7: 'unlock', 15: 'syscall', 24: 'BLOCKED-read', 36: 'callback',
          20: 'delivery-begins', 37: 'delivery-ends', 30: 'call', 31: 'callback-answer', 32: 'ret', 33: 'batch-next', 34: 'batch-ret', 96: 'bad-script', 97: 'refused'}
CALLNAME = {1: 'pending', 2: 'wait', 3: 'forever/new', 4: 'Forever::next', 5: 'poll_signal', 10: 'close', 11: 'add_signal'}
RETNAME = {0: '-', 1: 'batch', 2: 'iterator', 3: 'Signal', 4: 'Pending', 5: 'Closed', 9: 'Err', 10: 'closed', 11: 'added'}


def locname(l):
    return {0: '-', 1: 'closed', 2: 'pipe.w', 3: 'pipe.r', 4: 'ids.mutex', 5: 'registry'}.get(l, 'slot[%d]' % (l - 100) if l >= 100 else str(l))


class Scenario:
    def __init__(self, name, setup, acts, script, sched, exraw=0, cap=100000):
        self.name, self.setup, self.acts, self.script, self.sched, self.exraw, self.cap = name, list(setup), list(acts), list(script), list(sched), exraw, cap

    def ints(self, sched=None):
        sched = self.sched if sched is None else sched
        v = [self.exraw, self.cap, len(self.setup)] + list(self.setup)
        v += [len(self.acts)] + [x for a in self.acts for x in a]
        v += [len(self.script)] + [x for o in self.script for x in o]
        v += [len(sched)] + list(sched)
        return v

    def line(self, sched=None):
        return ' '.join(str(x) for x in self.ints(sched))

    def json(self):
        return {'system': 'iter', 'name': self.name, 'exraw': self.exraw, 'cap': self.cap, 'setup': self.setup, 'acts': self.acts,
                'script': self.script, 'schedule': self.sched}

    def consumer(self):
        for i, a in enumerate(self.acts):
            if a[0] == 2:
                return i
        return None


def from_json(j):
    return Scenario(j.get('name', 'replay'), j['setup'], [tuple(a) for a in j['acts']], [tuple(o) for o in j['script']], j['schedule'],
                    j.get('exraw', 0), j.get('cap', 100000))


# script ops: (1 pending) (2 wait) (3 forever/new) (4 Forever::next) (5 poll) (6 next on batch k) (7 drain batch k)
P, W, F, N, Q = (1, 0), (2, 0), (3, 0), (4, 0), (5, 0)


def D(k):
    return (7, k)


def B(k):
    return (6, k)


CONS = (2, 0, 0)


def SCAN(k):
    return (5, k, 0)


CLOSE = (3, 0, 0)


def dl(sig, marker):
    return (1, sig, marker)


def base_scenarios():
    """(name, set-up signals, activities, consumer script, tags)"""
    out = []
    out.append(('wait_vs_deliver', [S1], [dl(S1, 1), CONS], [W, D(0)], 'c09 c10'))
    out.append(('wait_wait_vs_deliver', [S1], [dl(S1, 1), CONS], [W, D(0), W, D(1)], 'c09'))
    out.append(('forever_vs_deliver', [S1], [dl(S1, 1), CONS], [F, N], 'c09 c10'))
    out.append(('forever_2sig', [S1, S2], [dl(S1, 1), dl(S2, 2), CONS], [F, N, N], 'c09 c10'))
    out.append(('forever_same_sig', [S1], [dl(S1, 1), dl(S1, 2), CONS], [F, N, P, D(0)], 'c09 c10'))
    # a Forever dropped with a signal of its batch unreported, then a fresh one: creating it looks at the slots again
    out.append(('forever_dropped_refreshed', [S1, S2], [dl(S1, 1), dl(S2, 2), CONS], [F, N, F, N], 'c09 c10'))
    out.append(('wait_twice', [S1, S2], [dl(S2, 1), dl(S1, 2), CONS], [W, D(0), P, D(1)], 'c09 c10'))
    out.append(('batches_alive', [S1, S2], [dl(S1, 1), dl(S2, 2), CONS], [P, P, B(0), B(1), D(1), D(0)], 'c10'))
    out.append(('add_vs_deliver', [S1], [(4, S2, 0), dl(S2, 1), CONS], [P, D(0), P, D(1)], 'c09 c10'))
    out.append(('wait_vs_close', [S1], [CLOSE, CONS], [W, D(0), W], 'c11'))
    out.append(('forever_vs_close', [S1], [CLOSE, CONS], [F, N, N], 'c11'))
    out.append(('poll_vs_close', [S1], [CLOSE, CONS], [F, Q, Q], 'c11'))
    out.append(('poll_vs_deliver', [S1], [dl(S1, 1), CONS], [F, Q, Q, Q], 'c09 c10 c11'))
    out.append(('poll_deliver_close', [S1], [dl(S1, 1), CLOSE, CONS], [F, Q, Q, Q], 'c09 c11'))
    out.append(('wait_deliver_close', [S1], [dl(S1, 1), CLOSE, CONS], [W, D(0), W, D(1)], 'c09 c11'))
    out.append(('forever_deliver_close', [S1, S2], [dl(S2, 1), CLOSE, CONS], [F, N, N, N], 'c09 c11'))
    out.append(('two_closers', [S1], [CLOSE, CLOSE, CONS], [F, N], 'c11'))
    # batches of one instance walked by several threads at once (a Pending is an owned, sendable value)
    out.append(('scan_vs_scan', [S1], [dl(S1, 1), SCAN(0), SCAN(1), CONS], [P, D(2)], 'c09 c10'))
    out.append(('scan_vs_wait', [S1, S2], [dl(S1, 1), dl(S2, 2), SCAN(0), CONS], [W, D(1), P, D(2)], 'c09 c10'))
    return out


LONG = 900


def split_points(kind, script):
    if kind != 2:
        return list(range(0, 18))
    pts = set(range(0, 22))
    for k in range(1, 4):
        pts |= set(range(k * MAXSIG - 6, k * MAXSIG + 14))
    return sorted(pts)


def gen(seed, tier, want=None):
    rnd = random.Random(seed)
    scen = []
    per = 6 if tier == 'quick' else 150
    for name, setup, acts, script, tags in base_scenarios():
        if want and not any(w in tags.split() for w in want):
            continue
        n = len(acts)
        cons = [i for i, a in enumerate(acts) if a[0] == 2][0]
        others = [i for i in range(n) if i != cons]
        # every split point of one activity against the rest run to completion, both orders
        for i in split_points(2, script):
            rest = [x for o in others for x in [o] * 40]
            scen.append(Scenario(name, setup, acts, script, [cons] * i + rest + [cons] * LONG))
        for o in others:
            rest = [x for p in others if p != o for x in [p] * 40]
            for i in split_points(acts[o][0], script):
                scen.append(Scenario(name, setup, acts, script, [o] * i + [cons] * LONG + [o] * 40 + rest + [cons] * LONG))
        # two scanning threads (scanner / scanner, scanner / consumer) stopped at every pair of slots around the watched ones, deliveries first
        scanners = [i for i, a in enumerate(acts) if a[0] == 5]
        dels = [x for i, a in enumerate(acts) if a[0] == 1 for x in [i] * 40]
        for x in scanners:
            for y in [z for z in scanners if z != x] + [cons]:
                for i in range(8, 16):
                    for j in range(8, 20):
                        tail = [z for o in others for z in [o] * 160]
                        scen.append(Scenario(name, setup, acts, script, dels + [x] * i + [y] * j + [x] * 6 + [y] * 6 + tail + [cons] * LONG))
        # two preemptions of the consumer at interesting places
        k = per if tier == 'quick' else 300
        pts = split_points(2, script)
        for _ in range(k):
            i = rnd.choice(pts)
            o = rnd.choice(others)
            j = rnd.randint(1, 14)
            l = rnd.choice([0, 1, 2, 3, 5, 8, 13, 120, 126, 128, 130, 134])
            rest = [x for p in others for x in [p] * 40]
            scen.append(Scenario(name, setup, acts, script, [cons] * i + [o] * j + [cons] * l + rest + [cons] * LONG))
        # random run lengths
        for _ in range(per):
            sched = []
            while len(sched) < rnd.randint(20, 500):
                a = rnd.randrange(n)
                sched += [a] * (rnd.choice([1, 2, 3, 5, 30, 129]) if a == cons else rnd.randint(1, 6))
            scen.append(Scenario(name, setup, acts, script, sched))
    return scen


def gen_raw(seed, tier):
    """WithRawSiginfo: bursts longer than the per-signal buffer, interleaved consumers (monitors only)."""
    rnd = random.Random(seed + 77)
    scen = []
    n = 12 if tier == 'quick' else 200
    for t in range(n):
        burst = rnd.randint(3, 8)
        acts = [dl(S1 if rnd.random() < 0.8 else S2, 100 + i) for i in range(burst)] + [CONS]
        cons = burst
        script = [W, D(0), P, D(1)] if t % 2 == 0 else [F, N, N, P, D(0)]
        if t % 3 == 0:
            # a burst longer than the channel on one signal, over before the consumer starts
            burst = rnd.randint(6, 9)
            acts = [dl(S1, 100 + i) for i in range(burst)] + [CONS]
            cons = burst
            script = [W, D(0), P, D(1)]
            # sequential burst, then the consumer
            sched = [x for i in range(burst) for x in [i] * 60] + [cons] * LONG
        else:
            sched = []
            while len(sched) < rnd.randint(100, 600):
                a = rnd.randrange(burst + 1)
                sched += [a] * (rnd.choice([1, 2, 5, 40, 129]) if a == cons else rnd.randint(1, 12))
        scen.append(Scenario('raw_burst', [S1, S2], acts, script, sched, exraw=1))
    # add_signal of a signal that is being delivered (another registration of it exists in the process, so
    # the delivery is harmless either way): every split point of the adder against the delivery, both orders;
    # from the instant the instance's action runs for a delivery, that delivery must come out as a record
    acts = [(4, S2, 0), dl(S2, 1), dl(S2, 2), CONS]
    script = [W, D(0), P, D(1)]
    pts = range(0, 70 if tier == 'quick' else 140)
    for i in pts:
        scen.append(Scenario('raw_add_vs_deliver', [S1], acts, script, [0] * i + [1] * 80 + [0] * 200 + [2] * 80 + [3] * LONG, exraw=1))
    for i in range(0, 30):
        scen.append(Scenario('raw_add_vs_deliver', [S1], acts, script, [1] * i + [0] * 200 + [1] * 80 + [2] * 80 + [3] * LONG, exraw=1))
    return scen


def parse_impl(l, acts=None):
    if not l.startswith('T'):
        return {'error': l, 'trace': [], 'finished': [], 'stuck': True, 'panicked': [], 'final': [], 'drained': False}
    parts = [p.strip() for p in l.split('|')]
    t = [int(x) for x in parts[0][1:].split()]
    trace = [tuple(t[j:j + 6]) for j in range(0, len(t), 6)]
    if acts is not None:
        # the registry's publish step of an add_signal call: name it by the signal being added
        trace = [(l[0], 2, 5, acts[l[0]][1], 0, l[5]) if (l[1] == 2 and l[2] == 5) else l for l in trace]
    fin = [int(x) for x in parts[1][1:].split()]
    pan = [int(x) for x in parts[2][1:].split()]
    st = [int(x) for x in parts[3][1:].split()]
    y = [int(x) for x in parts[4][1:].split()]
    x = [int(v) for v in parts[5][1:].split()]
    al = [int(v) for v in parts[6][1:].split()] if len(parts) > 6 else [0, 0]
    return {'trace': trace, 'finished': fin, 'panicked': pan, 'stuck': bool(st[0]), 'drain': st[1], 'drained': bool(y[0]), 'final': y[1:],
            'probes': x, 'allocs': al[0], 'frees': al[1]}


def run_impl(scen, timeout=1500):
    exe = common.bin_path('ls_iter')
    rc, out, _ = common.sh([exe], input=('\n'.join(s.line() for s in scen) + '\n').encode(), timeout=timeout)
    lines = out.split('\n')
    return [parse_impl(lines[i] if i < len(lines) else '!missing', scen[i].acts) for i in range(len(scen))]


def induced_schedule(r):
    return [l[0] for l in r['trace'] if l[1] in STEP_OPS]


def run_model(scen, impl):
    outs = common.run_driver('iter', ['run_iter ' + s.line(induced_schedule(r)) for s, r in zip(scen, impl)])
    res = []
    for l in outs:
        t = [int(x) for x in l.split()] if l and not l.startswith('!') else [-99]
        if -1 in t:
            k = len(t) - 1 - t[::-1].index(-1)
            ev, fin = t[:k], t[k + 1:]
        else:
            ev, fin = t, []
        res.append({'trace': [tuple(ev[j:j + 6]) for j in range(0, len(ev), 6)], 'finished': fin})
    return res


def pretty(line):
    a, op, loc, arg, res, ok = line
    if op == 30:
        return 'A%d call %s' % (a, CALLNAME.get(arg, arg))
    if op == 32:
        return 'A%d returns %s %s' % (a, RETNAME.get(arg, arg), res if arg == 3 else '')
    if op == 31:
        return 'A%d callback answered %s' % (a, 'true' if res else 'false')
    if op == 15:
        return 'A%d %s %s' % (a, locname(loc), {1: 'wake (send 1 byte)', 2: 'drain', 3: 'read 1 byte'}.get(arg, arg))
    return 'A%d %s %s arg=%d -> %d%s' % (a, locname(loc), OPNAME.get(op, str(op)), arg, res, '' if ok else ' (failed)')


def compare(s, r, m):
    """None if implementation and model agree, else a description of the first difference."""
    kinds = [a[0] for a in s.acts]
    ti = [l for l in r['trace'] if l[1] in STEP_OPS]
    tm = [l for l in m['trace'] if l[1] in STEP_OPS]
    for i in range(max(len(ti), len(tm))):
        a = ti[i] if i < len(ti) else None
        b = tm[i] if i < len(tm) else None
        if a != b:
            return {'step': i, 'impl': pretty(a) if a else None, 'model': pretty(b) if b else None}
    for act, k in enumerate(kinds):
        if k not in (2, 5):
            continue
        pi = [l for l in r['trace'] if l[0] == act and (l[1] in STEP_OPS or l[1] in NOTE_OPS)]
        pm = [l for l in m['trace'] if l[0] == act and (l[1] in STEP_OPS or l[1] in NOTE_OPS)]
        for i in range(max(len(pi), len(pm))):
            a = pi[i] if i < len(pi) else None
            b = pm[i] if i < len(pm) else None
            if a != b:
                return {'activity': act, 'index': i, 'impl': pretty(a) if a else None, 'model': pretty(b) if b else None}
    bad = [l for l in m['trace'] if l[1] in (96, 97, -99)]
    if bad:
        return {'model-refused': [pretty(l) for l in bad[:3]]}
    for act, k in enumerate(kinds):
        fi = r['finished'][act] if act < len(r['finished']) else 0
        fm = m['finished'][act] if act < len(m['finished']) else 0
        if (fm == 2 and not (fi == 1 and not any(l[0] == act and l[1] in STEP_OPS for l in r['trace']))) or (fm != 2 and fm != fi):
            return {'finished': r['finished'], 'model': m['finished']}
    return None


# ------------------------------------------------------------------------------------------
# monitors on the implementation's trace
def yields_of(s, r):
    """(trace index, activity, value) of every record handed to the user"""
    out = []
    for idx, (a, op, loc, arg, res, ok) in enumerate(r['trace']):
        if (op == 34 and arg == 1) or (op == 32 and arg == 3):
            out.append((idx, a, res))
    return out


def sig_of_value(s, v):
    return v // 1000000 if s.exraw else v


def replay_state(s, r, upto):
    """slots set / pipe bytes / handlers between their store and wake, from the trace prefix"""
    slot, pipe, mid = {}, 0, {}
    kinds = [a[0] for a in s.acts]
    closed = False
    for (a, op, loc, arg, res, ok) in r['trace'][:upto]:
        if op == 1 and loc >= 100:
            slot[loc - 100] = slot.get(loc - 100, 0) + 1 if s.exraw else 1
            mid[a] = loc - 100
        elif op == 5 and loc >= 100 and ok:
            slot[loc - 100] = 0
        elif op == 15 and arg == 1:
            pipe += 1
            mid.pop(a, None)
        elif op == 15 and arg == 2:
            pipe = 0
        elif op == 15 and arg == 3:
            pipe = max(0, pipe - 1)
        elif op == 31 and res == 1:
            pipe = max(0, pipe - 1)
        elif op == 1 and loc == 1:
            closed = True
    return slot, pipe, set(mid.values()), closed


def mon_c09_raw(s, r):
    """WithRawSiginfo: a delivery for which an action of this instance ran (it wrote the wake-up byte of the
    instance) is reported as a record once the consumer has drained everything - unless more than the buffer
    holds were delivered for that signal (C06 allows the discard) or the instance was closed"""
    viol = []
    tr = r['trace']
    if not (r.get('drained') and all(r['finished'])) or any(l[1] == 1 and l[2] == 1 for l in tr):
        return viol
    begun, woke = {}, set()
    for idx, (a, op, loc, arg, res, ok) in enumerate(tr):
        if op == 20 and res >= 0:
            begun[a] = (arg, res, idx)
        elif op == 15 and arg == 1:
            woke.add(a)
    per_sig = {}
    for a, (g, mk, idx) in begun.items():
        per_sig[g] = per_sig.get(g, 0) + 1
    got = set()
    for idx, a, v in yields_of(s, r) + [(len(tr), -1, v) for v in r.get('final', [])]:
        if v >= 0:
            got.add((v // 1000000, v % 1000000))
    for a, (g, mk, idx) in sorted(begun.items()):
        if a in woke and per_sig[g] <= 5 and (g, mk) not in got:
            viol.append(('lost-record', idx, 'the delivery of signal %d (marker %d) ran this instance\'s action (its wake-up byte was written) but no record of it '
                         'ever came out, although the consumer drained everything afterwards' % (g, mk)))
    return viol


def mon_c09(s, r):
    viol = []
    if s.exraw:
        return mon_c09_raw(s, r)
    cons = s.consumer()
    tr = r['trace']
    # one pass: slots set, handlers between store and wake, batches handed out / exhausted
    slot, mid = {}, {}
    nb, done, cur = 0, set(), None
    for idx, (a, op, loc, arg, res, ok) in enumerate(tr):
        if op == 1 and loc >= 100:
            slot[loc - 100] = 1
            mid[a] = loc - 100
        elif op == 5 and loc >= 100 and ok:
            slot[loc - 100] = 0
        elif op == 15 and arg == 1:
            mid.pop(a, None)
        elif op == 32 and arg == 1:
            nb += 1
        elif op == 33:
            cur = arg % 1000
        elif op == 34 and arg == 0 and cur is not None:
            done.add(cur)
        elif op == 24 and a == cons:
            lost = [g for g, v in slot.items() if v and g not in mid.values()]
            if lost and nb - len(done) == 0:
                viol.append(('lost-wakeup', idx, 'consumer blocked on the self-pipe (nothing readable) while signal %s is delivered, stored, its wake-up done and unreported' % lost))
                break
    # parked after Pending at the end of the run with a set slot and no byte to trigger the armed wake-up
    last_ret = None
    for idx, (a, op, loc, arg, res, ok) in enumerate(tr):
        if a == cons and op == 32:
            last_ret = (idx, arg)
    if last_ret and last_ret[1] == 4 and r['finished'][cons]:
        slot, pipe, mid, closed = replay_state(s, r, len(tr))
        lost = [g for g, v in slot.items() if v and g not in mid]
        if lost and pipe == 0 and all(r['finished']):
            viol.append(('parked-lost', last_ret[0], 'poll_signal returned Pending; signal %s is stored and its wake-up done, but no byte is left in the pipe to fire the armed wake-up' % lost))
    # nothing lost: every stored delivery is reported after it (final drain included)
    if r.get('drained') and all(r['finished']):
        ys = yields_of(s, r)
        closed_at = min([i for i, l in enumerate(tr) if l[1] == 1 and l[2] == 1] + [10 ** 9])
        for idx, (a, op, loc, arg, res, ok) in enumerate(tr):
            if op == 1 and loc >= 100 and closed_at == 10 ** 9:
                g = loc - 100
                if not any(i > idx and v == g for i, _, v in ys) and g not in r['final']:
                    viol.append(('lost-signal', idx, 'delivery of signal %d stored at step %d was never reported, although the consumer drained everything afterwards' % (g, idx)))
    return viol


def mon_c10(s, r):
    viol = []
    tr = r['trace']
    if any(l[1] == 95 for l in tr) or len(r.get('final', [])) >= 700:
        viol.append(('endless-batch', -1, 'a batch kept yielding: more than 700 records out of one Pending iterator'))
        return viol
    begun, ycount = {}, {}
    watched = set(s.setup)
    delivered = {}     # sig -> list of markers in order of the begin of the delivery
    ended = {}         # (sig, marker) -> index of end note
    started = {}
    for idx, (a, op, loc, arg, res, ok) in enumerate(tr):
        if op == 20 and res >= 0:
            begun[arg] = begun.get(arg, 0) + 1
            delivered.setdefault(arg, []).append(res)
            started[(arg, res)] = idx
        if op == 37:
            ended[(arg, res)] = idx
        if op == 2 and loc == 5:
            watched.add(s.acts[a][1])
    seen = {}
    order = {}
    for idx, a, v in yields_of(s, r) + [(len(tr), -1, v) for v in r.get('final', [])]:
        if v < 0:
            viol.append(('corrupt-record', idx, 'a yielded siginfo record is not a faithful copy of any delivery'))
            continue
        g = sig_of_value(s, v)
        b = sum(1 for (sg, mk), i in started.items() if sg == g and i < idx)
        ycount[g] = ycount.get(g, 0) + 1
        if g not in watched:
            viol.append(('unwatched', idx, 'signal %d was yielded but never asked for' % g))
        if ycount[g] > b:
            viol.append(('phantom', idx, 'signal %d yielded %d times after only %d deliveries had begun' % (g, ycount[g], b)))
        if s.exraw:
            mk = v % 1000000
            if (g, mk) not in started or started[(g, mk)] > idx:
                viol.append(('foreign-record', idx, 'record (%d, marker %d) yielded before/without such a delivery' % (g, mk)))
            if (g, mk) in seen:
                viol.append(('duplicate-record', idx, 'record (%d, marker %d) yielded twice' % (g, mk)))
            seen[(g, mk)] = idx
            order.setdefault(g, []).append(mk)
    if s.exraw:
        # a burst that is over before the consumer starts: exactly the first CHAN_SLOTS records, in order
        cons = s.consumer()
        first_cons = min([i for i, l in enumerate(tr) if l[0] == cons and l[1] in STEP_OPS] + [10 ** 9])
        if r.get('drained') and all(r['finished']):
            for g, mks in delivered.items():
                # (signals watched from the start only: a delivery that precedes the add_signal of its signal is none of this instance's)
                if g in s.setup and all(ended.get((g, m), 10 ** 9) < first_cons for m in mks):
                    seq = sorted(mks, key=lambda m: started[(g, m)])
                    # (only for deliveries that came one AFTER the other: between two that overlap - two threads inside the
                    # handler at once - there is no delivery order to preserve, and which of more than five is discarded is
                    # open too; a random schedule of the thorough tier overlapped two and the rule raised a false alarm)
                    if any(ended[(g, seq[i])] > started[(g, seq[i + 1])] for i in range(len(seq) - 1)):
                        continue
                    if order.get(g, []) != seq[:5]:
                        viol.append(('burst', -1, 'burst of %d deliveries of signal %d (markers %s) before the consumer started: yielded %s, expected the first 5 in order' % (len(mks), g, seq, order.get(g, []))))
        for g, mks in order.items():
            for i in range(len(mks)):
                for j in range(i + 1, len(mks)):
                    # mks[i] yielded before mks[j]: then delivery j must not have ended before delivery i began
                    if ended.get((g, mks[j]), 10 ** 9) < started.get((g, mks[i]), -1):
                        viol.append(('order', -1, 'records of signal %d out of delivery order: marker %d before %d' % (g, mks[i], mks[j])))
    return viol


def mon_c11(s, r, bound=2 * MAXSIG + 12):
    viol = []
    tr = r['trace']
    cons = s.consumer()
    kinds = [a[0] for a in s.acts]
    closed_store = None
    close_done = None
    for idx, (a, op, loc, arg, res, ok) in enumerate(tr):
        if op == 1 and loc == 1 and closed_store is None:
            closed_store = idx
        if op == 32 and arg == 10 and close_done is None:
            close_done = idx
        if op == 0 and loc == 1 and closed_store is not None and res != 1:
            viol.append(('not-sticky', idx, 'is_closed() read false after close() had stored the flag'))
    # every poll_signal call: result together with the callback log
    cur, log = None, []
    for idx, (a, op, loc, arg, res, ok) in enumerate(tr):
        if a != cons:
            continue
        if op == 30:
            cur, log = arg, []
        elif op == 31:
            log.append(res)
        elif op == 32 and cur == 5 and arg == 4:
            if not log or log[-1] != 0:
                viol.append(('pending-unarmed', idx, 'poll_signal returned Pending although its readiness callback was consulted %d times in this call%s: the caller has no wake-up armed'
                             % (len(log), '' if not log else ' (last answer: available)')))
    if close_done is not None and cons is not None:
        steps_in_call, in_call, call_kind = 0, False, None
        for idx, (a, op, loc, arg, res, ok) in enumerate(tr):
            if a != cons:
                continue
            if op == 30:
                in_call, call_kind, started = True, arg, idx
                steps_in_call = 0
            if idx <= close_done:
                if op == 32:
                    in_call = False
                continue
            if op == 24:
                viol.append(('blocked-after-close', idx, 'the consumer is blocked on the self-pipe after close() returned'))
                break
            if op in STEP_OPS and in_call:
                steps_in_call += 1
                if steps_in_call > bound:
                    viol.append(('unbounded-after-close', idx, 'a %s call took more than %d steps after close() returned' % (CALLNAME.get(call_kind), bound)))
                    break
            if op == 32:
                if call_kind == 4 and started > close_done and arg != 5:
                    viol.append(('forever-not-ended', idx, 'Forever::next started after close() returned and did not return None'))
                in_call = False
        if not r['finished'][cons] and all(r['finished'][i] for i in range(len(kinds)) if i != cons):
            viol.append(('stuck-after-close', -1, 'close() returned but the consumer never finished its calls'))
    return viol


def lockstep(ctx, monitors, want, with_raw=False, corr_name='lock-step: iterator model trace = implementation trace (same schedules)'):
    scen = gen(ctx.seed, ctx.tier, want)
    impl = run_impl(scen)
    ok_driver = ctx.driver('iter', ['run_iter'], ['iter/Run.vo'])
    model = run_model(scen, impl) if ok_driver else None
    diffs, seen, switches = [], set(), 0
    for i, (s, r) in enumerate(zip(scen, impl)):
        ctx.evaluations += 1
        if 'error' in r:
            diffs.append({'scenario': s.json(), 'error': r['error']})
            continue
        if r.get('probes') != [1, 1]:
            diffs.append({'scenario': s.json(), 'error': 'closed flag / slot array not located'})
        steps = [l for l in r['trace'] if l[1] in STEP_OPS]
        key = (s.name, tuple(steps))
        if key not in seen and len(set(l[0] for l in steps)) > 1:
            seen.add(key)
            ctx.distinct.add(hash(key))
        switches += sum(1 for a, b in zip(steps, steps[1:]) if a[0] != b[0])
        if model is not None:
            d = compare(s, r, model[i])
            if d is not None:
                d['scenario'] = s.json()
                diffs.append(d)
            else:
                ctx.traces += 1
        report(ctx, s, r, monitors)
    if model is not None:
        ctx.correspondence(corr_name, not diffs, diffs[:3])
    nraw = 0
    if with_raw:
        rs = gen_raw(ctx.seed, ctx.tier)
        ri = run_impl(rs)
        for s, r in zip(rs, ri):
            ctx.evaluations += 1
            nraw += 1
            if 'error' in r:
                ctx.correspondence('WithRawSiginfo burst run', False, r['error'])
                continue
            report(ctx, s, r, monitors)
    ctx.coverage['input_distribution'] = {
        'scenarios': len(scen), 'raw_burst_scenarios': nraw, 'kinds': sorted(set(s.name for s in scen)),
        'distinct_interleaved_traces': len(seen), 'context_switches_total': switches,
        'mean_steps': round(sum(len([l for l in r['trace'] if l[1] in STEP_OPS]) for r in impl) / max(1, len(impl)), 1)}
    if not ctx.samples and scen:
        j = min(30, len(scen) - 1)
        ctx.samples = [{'scenario': scen[j].json(), 'impl_trace': [pretty(l) for l in impl[j]['trace'] if not (l[1] == 5 and l[5] == 0)][:60]}]
    return scen, impl


def report(ctx, s, r, monitors):
    """one violation per (monitor, scenario kind): the one with the shortest trace is kept"""
    for mon in monitors:
        for kind, idx, what in mon(s, r):
            key = json.dumps({'monitor': kind, 'scenario': s.name, 'acts': s.acts, 'script': s.script}, sort_keys=True)
            case = {'scenario': s.json(), 'schedule_runs': compress(s.sched),
                    'trace': [pretty(l) for l in r['trace'] if not (l[1] == 5 and l[5] == 0)][:400], 'at': idx}
            old = [v for v in ctx.violations if v['key'] == key]
            if old:
                if len(old[0]['case']['trace']) > len(case['trace']):
                    old[0]['case'], old[0]['what'] = case, what
            else:
                ctx.violation(key, what, case)


def compress(sched):
    out = []
    for a in sched:
        if out and out[-1][0] == a:
            out[-1][1] += 1
        else:
            out.append([a, 1])
    return out


# ------------------------------------------------------------------------------------------
# a delivery landing at every INSTRUCTION boundary of pending() / wait() / forever().next()
# (harness/src/bin/p_nested_iter.rs; fork per boundary).  Independent of the hook points; the
# oracle is the property text itself (the child evaluates it and tags each complaint).
SWEEP_CONFIGS = [('o', 'p', '-'), ('o', 'p', 's'), ('o', 'p', 't'), ('o', 'p', 'st'), ('o', 'w', 's'), ('o', 'w', 't'), ('o', 'w', 'ts'),
                 ('o', 'f', 's'), ('o', 'f', 't'), ('o', 'f', 'st'),
                 ('r', 'p', '-'), ('r', 'p', 's'), ('r', 'p', 'ss'), ('r', 'p', 'st'), ('r', 'p', 'sssss'), ('r', 'w', 's'), ('r', 'w', 'ss'),
                 ('r', 'w', 't'), ('r', 'w', 'ssssss'), ('r', 'f', 's'), ('r', 'f', 't'), ('r', 'f', 'sst'), ('r', 'f', 'ssssst'),
                 # add_signal(SIGUSR2) single-stepped, SIGUSR2 delivered at the boundary
                 ('o', 'a', '-'), ('r', 'a', '-'),
                 # close() of ANOTHER instance single-stepped: the library busy with one instance while a delivery for this one arrives
                 ('o', 'c', '-'), ('r', 'c', '-'), ('o', 'c', 't'), ('r', 'c', 'ss'),
                 # the library's handler itself single-stepped while it runs for SIGUSR1: SIGUSR2 really nested (h) / close() of another instance (H)
                 ('o', 'h', '-'), ('r', 'h', '-'), ('o', 'H', '-'), ('r', 'H', '-')]
HANDLER_CLOSE_CONFIGS = [('o', 'H', '-'), ('r', 'H', '-')]
SWEEP_NAMES = {'o': 'SignalOnly', 'r': 'WithRawSiginfo', 'p': 'pending()', 'w': 'wait()', 'f': 'forever().next()', 'a': 'add_signal(SIGUSR2)', 'd': 'drop(instance)',
               'c': 'close() of another instance', 'D': 'drop of the last Handle (object already gone)', 'G': 'the handler running for an instance whose object is gone', 'h': 'the handler running for SIGUSR1', 'H': 'the handler running for SIGUSR1'}
SWEEP_EVENT = {'G': 'the last Handle dropped by another thread', 'a': 'one more SIGUSR2 delivered', 'h': 'SIGUSR2 delivered (nested)', 'H': 'close() of another instance called'}
C09_KINDS = ('LOST', 'BLOCKED', 'CRASH')
C10_KINDS = ('EXTRA', 'UNWATCHED', 'FIELD', 'ORDER', 'CRASH')


def sweep_one(cfg, konly=None, timeout=240):
    cmd = [common.bin_path('p_nested_iter')] + list(cfg) + ([str(konly)] if konly else [])
    rc, out, _ = common.sh(cmd, timeout=timeout)
    rows, end, waiting = [], None, set()
    for l in out.split('\n'):
        p = l.split(' ', 2)
        if p[0] == 'W' and len(p) >= 2 and p[1].strip().isdigit():
            waiting.add(int(p[1]))       # this child went on to wait() on the OTHER, closed instance
        elif p[0] == 'X' and len(p) == 3 and int(p[1]) in waiting and p[2].strip() == 'signal 14':
            rows.append({'k': int(p[1]), 'kinds': ['STRANDED'], 'yields': '',
                         'verdict': 'wait() on the instance that close() had been called for did not return (killed by the 3 s alarm)'})
        elif p[0] == 'K' and len(p) == 3:
            verdict, _, rest = p[2].partition(' | ')
            kinds = sorted(set(w for part in verdict[4:].split('; ') for w in [part.split(' ', 1)[0]])) if verdict.startswith('BAD') else []
            rows.append({'k': int(p[1]), 'kinds': kinds, 'verdict': verdict, 'yields': rest})
        elif p[0] == 'X' and len(p) == 3:
            rows.append({'k': int(p[1]), 'kinds': ['BLOCKED' if p[2].strip() == 'signal 14' else 'CRASH'], 'yields': '',
                         'verdict': 'the consumer blocked with the delivery unreported (killed by the 3 s alarm)' if p[2].strip() == 'signal 14'
                         else 'the process died: ' + p[2]})
        elif p[0] == 'P':
            rows.append({'k': int(p[1]) if len(p) > 1 and p[1].isdigit() else 0, 'kinds': ['CRASH'], 'verdict': 'panic: ' + l, 'yields': ''})
        elif p[0] == 'E':
            end = int(p[1])
    return {'cfg': cfg, 'rows': rows, 'end': end, 'rc': rc, 'tail': out[-300:]}


def sweep_configs(tier):
    if tier != 'thorough':
        return SWEEP_CONFIGS
    import itertools
    pres = ['-'] + [''.join(p) for n in (1, 2, 3) for p in itertools.product('st', repeat=n)]
    cfgs = []
    for e in 'or':
        for o in 'pwf':
            for pre in pres + (['sssss', 'ssssss', 'ssssst', 'tsssss', 'ttttts'] if e == 'r' else []):
                if pre == '-' and o != 'p':
                    continue
                cfgs.append((e, o, pre))
    return cfgs + [('o', 'a', '-'), ('r', 'a', '-')] + [(e, 'c', pre) for e in 'or' for pre in ('-', 's', 't', 'st', 'ss')] + [(e, o, '-') for e in 'or' for o in 'hH']


DROP_CONFIGS = [('o', 'd', '-'), ('r', 'd', '-')]
C12_KINDS = ('SURVIVED', 'OPEN', 'BLOCKED', 'CRASH')


def instr_sweep(ctx, want, configs=None, key='instruction_delivery_sweep'):
    from concurrent.futures import ThreadPoolExecutor
    SWEEP_CONFIGS = configs or sweep_configs(ctx.tier)
    with ThreadPoolExecutor(max_workers=12) as ex:
        results = list(ex.map(sweep_one, SWEEP_CONFIGS))
    # a configuration that did not reach its end without any complaint was cut off (a starved machine): once more, alone
    results = [sweep_one(r['cfg'], timeout=600) if (r['end'] is None and not any(x['kinds'] for x in r['rows'])) else r for r in results]
    hits, total, incomplete, per = {}, 0, [], {}
    for res in results:
        e, o, pre = cfg = res['cfg']
        name = '%s, %s after deliveries "%s"' % (SWEEP_NAMES[e], SWEEP_NAMES[o], pre)
        per['/'.join(cfg)] = res['end']
        if res['end'] is None:
            incomplete.append('%s: %s' % (name, res['tail']))
        confirmed = 0
        for row in res['rows']:
            total += 1
            ctx.evaluations += 1
            if row['kinds'] in (['BLOCKED'], ['STRANDED']):
                # a child killed by its alarm: make sure it was not the machine that stalled - the same boundary
                # alone, in a fresh process, must block again (the first three per configuration are re-run)
                confirmed += 1
                if confirmed <= 3:
                    again = sweep_one(cfg, konly=row['k'], timeout=60)
                    if not any(r2['k'] == row['k'] and r2['kinds'] == row['kinds'] for r2 in again['rows']):
                        hits['unconfirmed-stall'] = hits.get('unconfirmed-stall', 0) + 1
                        continue
            for kind in row['kinds']:
                hits[kind] = hits.get(kind, 0) + 1
                if kind in want and hits[kind] <= 3:
                    ctx.violation({'monitor': 'instr-' + kind, 'exf': e, 'outer': o, 'pre': pre, 'k': row['k']},
                                  '%s, %s after %d instructions of it: %s [%s]' % (name, SWEEP_EVENT.get(o, 'one more SIGUSR1 delivered'), row['k'], row['verdict'], row['yields']),
                                  {'instr_sweep': {'exf': e, 'outer': o, 'pre': pre, 'k': row['k']}, 'observed': row})
    ctx.correspondence('instruction-level delivery sweep ran to the end in all %d configurations' % len(SWEEP_CONFIGS), not incomplete, incomplete[:3])
    ctx.coverage[key] = {'configurations': len(SWEEP_CONFIGS), 'boundaries': total, 'complaints': hits, 'boundaries_per_configuration': per}
    ctx.traces += total - sum(hits.values())


def instr_replay(ctx, c, want):
    n = c['instr_sweep']
    ctx.harness(['p_nested_iter'])
    res = sweep_one((n['exf'], n['outer'], n['pre']), konly=n['k'], timeout=60)
    bad = False
    for row in res['rows']:
        print('k=%d %s | %s' % (row['k'], row['verdict'], row['yields']))
        if row['k'] == n['k'] and any(k in want for k in row['kinds']):
            print('REPRODUCED:', row['verdict']); bad = True
    return 1 if bad else 0


# ------------------------------------------------------------------------------------------
# close() landing at every INSTRUCTION boundary of wait() / forever().next() / one poll_signal of the
# asynchronous back end (harness/src/bin/p_nested_close.rs; fork per boundary)
CLOSE_CONFIGS = [('q', '-'), ('q', 's'), ('q', 't'), ('q', 'st'), ('w', 's'), ('w', 't'), ('w', 'ts'), ('f', 's'), ('f', 't'), ('f', 'st'),
                 # many undrained wake-up bytes (a consumer that reads them in chunks must still see the close byte for what it is)
                 ('w', 's' * 63), ('f', 's' * 63), ('w', 's' * 64), ('q', 's' * 63), ('w', 'st' * 127),
                 # a stale wake-up byte in the pipe (upper case: delivered and handed out by the batch the iterator holds)
                 ('q', 'S'), ('q', 'ST'), ('q', 'TSs')]
STALE_CONFIGS = [('q', '-'), ('q', 'S'), ('q', 'ST'), ('q', 'TSs'), ('q', 's')]
C09_POLL_KINDS = ('UNARMED', 'STRANDED')
CLOSE_NAMES = {'q': 'poll_signal (non-blocking callback)', 'w': 'wait()', 'f': 'forever().next()'}
C11_KINDS = ('UNARMED', 'STRANDED', 'STICKY', 'ENDLESS', 'ERR', 'BLOCKED', 'CRASH')
C11_HANDLER_KINDS = ('STRANDED', 'STICKY', 'CRASH')


def close_one(cfg, konly=None, timeout=240):
    cmd = [common.bin_path('p_nested_close')] + list(cfg) + ([str(konly)] if konly else [])
    rc, out, _ = common.sh(cmd, timeout=timeout)
    rows, end, waiting = [], None, set()
    for l in out.split('\n'):
        p = l.split(' ', 2)
        if p[0] == 'W' and len(p) >= 2 and p[1].strip().isdigit():
            waiting.add(int(p[1]))       # this child went on to wait() on the OTHER, closed instance
        elif p[0] == 'X' and len(p) == 3 and int(p[1]) in waiting and p[2].strip() == 'signal 14':
            rows.append({'k': int(p[1]), 'kinds': ['STRANDED'], 'yields': '',
                         'verdict': 'wait() on the instance that close() had been called for did not return (killed by the 3 s alarm)'})
        elif p[0] == 'K' and len(p) == 3:
            verdict, _, rest = p[2].partition(' | ')
            kinds = sorted(set(part.split(' ', 1)[0] for part in verdict[4:].split('; '))) if verdict.startswith('BAD') else []
            rows.append({'k': int(p[1]), 'kinds': kinds, 'verdict': verdict, 'observed': rest})
        elif p[0] == 'X' and len(p) == 3:
            rows.append({'k': int(p[1]), 'kinds': ['BLOCKED' if p[2].strip() == 'signal 14' else 'CRASH'], 'observed': '',
                         'verdict': 'the consumer did not come back after close() (killed by the 3 s alarm)' if p[2].strip() == 'signal 14' else 'the process died: ' + p[2]})
        elif p[0] == 'P':
            rows.append({'k': int(p[1]) if len(p) > 1 and p[1].isdigit() else 0, 'kinds': ['CRASH'], 'verdict': 'panic: ' + l, 'observed': ''})
        elif p[0] == 'E':
            end = int(p[1])
    return {'cfg': cfg, 'rows': rows, 'end': end, 'rc': rc, 'tail': out[-300:]}


def close_sweep(ctx, want, configs=None, key='instruction_close_sweep'):
    from concurrent.futures import ThreadPoolExecutor
    CLOSE_CONFIGS = configs or globals()['CLOSE_CONFIGS']
    if ctx.tier == 'thorough' and not configs:
        import itertools
        pres = [''.join(p) for n in (1, 2, 3) for p in itertools.product('st', repeat=n)]
        CLOSE_CONFIGS = [('q', '-')] + [(o, pre) for o in 'qwf' for pre in pres]
    with ThreadPoolExecutor(max_workers=10) as ex:
        results = list(ex.map(close_one, CLOSE_CONFIGS))
    results = [close_one(r['cfg'], timeout=600) if (r['end'] is None and not any(x['kinds'] for x in r['rows'])) else r for r in results]
    hits, total, incomplete, per = {}, 0, [], {}
    for res in results:
        o, pre = cfg = res['cfg']
        name = '%s after deliveries "%s"' % (CLOSE_NAMES[o], pre if len(pre) <= 8 else '%s x %d' % (pre[:2] if pre[0] != pre[1] else pre[0], len(pre) // (2 if pre[0] != pre[1] else 1)))
        per['/'.join(cfg)] = res['end']
        if res['end'] is None:
            incomplete.append('%s: %s' % (name, res['tail']))
        confirmed = 0
        for row in res['rows']:
            total += 1
            ctx.evaluations += 1
            if row['kinds'] == ['BLOCKED']:
                confirmed += 1
                if confirmed <= 3:
                    again = close_one(cfg, konly=row['k'], timeout=60)
                    if not any(r2['k'] == row['k'] and r2['kinds'] == ['BLOCKED'] for r2 in again['rows']):
                        hits['unconfirmed-stall'] = hits.get('unconfirmed-stall', 0) + 1
                        continue
            for kind in row['kinds']:
                hits[kind] = hits.get(kind, 0) + 1
                if kind in want and hits[kind] <= 3:
                    ctx.violation({'monitor': 'close-' + kind, 'outer': o, 'pre': pre, 'k': row['k']},
                                  '%s, close() called after %d instructions of the call: %s [%s]' % (name, row['k'], row['verdict'], row['observed']),
                                  {'close_sweep': {'outer': o, 'pre': pre, 'k': row['k']}, 'observed': row})
    ctx.correspondence('instruction-level close sweep ran to the end in all %d configurations' % len(CLOSE_CONFIGS), not incomplete, incomplete[:3])
    ctx.coverage[key] = {'configurations': len(CLOSE_CONFIGS), 'boundaries': total, 'complaints': hits, 'boundaries_per_configuration': per}
    ctx.traces += total - sum(hits.values())


def close_replay(ctx, c, want):
    n = c['close_sweep']
    ctx.harness(['p_nested_close'])
    res = close_one((n['outer'], n['pre']), konly=n['k'], timeout=60)
    bad = False
    for row in res['rows']:
        print('k=%d %s | %s' % (row['k'], row['verdict'], row['observed']))
        if row['k'] == n['k'] and any(k in want for k in row['kinds']):
            print('REPRODUCED:', row['verdict']); bad = True
    return 1 if bad else 0


# ------------------------------------------------------------------------------------------
# every signal number through the iterators (harness/src/bin/p_allsigs.rs)
def allsigs_probe(ctx, want):
    """want: subset of ('lost', 'extra'); lost includes a consumer that never came back"""
    if not ctx.harness(['p_allsigs']):
        return
    consts = common.measured_consts()
    forb = {consts[n] for n in ('SIGKILL', 'SIGSTOP', 'SIGILL', 'SIGFPE', 'SIGSEGV')}
    nums = list(range(1, 65))
    rc, out, _ = common.sh([common.bin_path('p_allsigs')] + [str(n) for n in nums], timeout=600)
    rows = [l.split() for l in out.split('\n') if l.startswith('A ')]
    ctx.correspondence('all-signal-numbers probe ran (p_allsigs)', rc == 0 and len(rows) == 2 * len(nums), out[-300:] if rc else None)
    unexpected = []
    for r in rows:
        if len(r) != 4:
            continue
        sig, exf, outcome = int(r[1]), r[2], r[3]
        ctx.evaluations += 1
        name = '%s watching signal %d' % ({'o': 'Signals', 'r': 'SignalsInfo<WithRawSiginfo>'}[exf], sig)
        if sig in forb or sig in (32, 33):
            if not outcome.startswith('refused'):
                unexpected.append((sig, exf, outcome))
            continue
        ctx.distinct.add(('allsigs', sig, exf))
        kind = 'lost' if (outcome == 'lost' or outcome.startswith('died')) else ('extra' if outcome.startswith('extra') else None)
        if outcome.startswith('refused'):
            unexpected.append((sig, exf, outcome))
        elif kind in want:
            ctx.violation({'monitor': 'allsigs-' + kind, 'sig': sig, 'exf': exf},
                          '%s: raise(%d) then wait(): %s' % (name, sig, {'lost': 'the delivery was never reported (%s)' % outcome, 'extra': 'yielded %s' % outcome[6:]}[kind]),
                          {'probe': 'p_allsigs', 'row': r, 'replay': 'harness/target/debug/p_allsigs %d' % sig})
        elif outcome == 'ok':
            ctx.traces += 1
    ctx.correspondence('every catchable signal number 1..64 is accepted by the iterators and the refused ones are refused', not unexpected, unexpected[:5])
    ctx.coverage['all_signal_numbers'] = len(rows)
